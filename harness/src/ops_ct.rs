//! C10: secret-dependent control flow / addressing.  The secret bytes of each operation are marked UNDEFINED with a
//! valgrind client request; under memcheck every conditional jump or address computed from them is reported.  The
//! number of reports between the two markers is the observation; outputs are declassified before they are printed.
//! (Run natively the client requests are no-ops and every count is 0.)
use crate::*;
use curve25519_dalek::traits::{MultiscalarMul, VartimeMultiscalarMul};
#[cfg(feature = "ed")]
use sha2::Sha512;
use std::sync::atomic::{AtomicU64, Ordering};

#[inline(never)]
fn vg_request(req: u64, a1: u64, a2: u64) -> u64 {
    let args: [u64; 6] = [req, a1, a2, 0, 0, 0];
    let mut res: u64 = 0;
    unsafe {
        core::arch::asm!("rol rdi, 3", "rol rdi, 13", "rol rdi, 61", "rol rdi, 51", "xchg rbx, rbx",
            inout("rdx") res, in("rax") args.as_ptr(), out("rdi") _, options(nostack));
    }
    res
}
fn undefine<T>(x: &T, len: usize) {
    vg_request(0x4d430001, x as *const T as u64, len as u64);
}
fn define<T>(x: &T, len: usize) {
    vg_request(0x4d430002, x as *const T as u64, len as u64);
}
fn errors() -> u64 {
    vg_request(0x1201, 0, 0)
}
fn running_on_valgrind() -> bool {
    vg_request(0x1001, 0, 0) != 0
}
/// marker for instruction/address traces (lackey): a store to this address delimits the measured window
pub static MARKER: AtomicU64 = AtomicU64::new(0);
/// set by ct.info when VERIF_CT_TRAP=1: mark() then also executes `int3`, which tools/stepper.c (a ptrace single-stepper)
/// uses to delimit the same window natively
static TRAP: std::sync::atomic::AtomicBool = std::sync::atomic::AtomicBool::new(false);
#[inline(never)]
fn mark(v: u64) {
    MARKER.store(v, Ordering::SeqCst);
    if TRAP.load(Ordering::Relaxed) {
        unsafe { core::arch::asm!("int3", options(nostack)) };
    }
}

/// run `f` between the markers; returns (result, memcheck reports raised inside the window)
fn window<R>(f: impl FnOnce() -> R) -> (R, u64) {
    let e0 = errors();
    mark(0xA11CE);
    let r = f();
    mark(0xB0B);
    let e1 = errors();
    (r, e1 - e0)
}

pub fn run(op: &str, e: &Value, ctx: &mut Ctx) -> Result<Value, String> {
    let _ = ctx;
    match op {
        "ct.info" => {
            TRAP.store(std::env::var("VERIF_CT_TRAP").map(|v| v == "1").unwrap_or(false), Ordering::Relaxed);
            Ok(json!({"valgrind": running_on_valgrind(), "marker_addr": format!("{:x}", &MARKER as *const _ as usize), "trap": TRAP.load(Ordering::Relaxed)}))
        }
        "ct.run" => {
            // target: the operation; in[0]: secret bytes (32 or 64); in[1]: public bytes
            let target = e["target"].as_str().ok_or("target")?;
            // in[0] is a LIST of candidate secrets; the environment variable VERIF_CT_SEL (one base-36 digit) picks one, so that the
            // script file, argv and environment have identical sizes in runs that differ only in the secret
            let sel = std::env::var("VERIF_CT_SEL").ok().and_then(|s| usize::from_str_radix(&s, 36).ok()).unwrap_or(0);
            let cands = inp(e, 0)?.as_array().ok_or("secrets")?;
            let sec = bytes_of(&cands[sel % cands.len()])?;
            let publ = if n_in(e) > 1 { bytes_of(inp(e, 1)?)? } else { vec![] };
            let mut s32 = [0u8; 32];
            s32.copy_from_slice(&sec[..32]);
            let mut p32 = [9u8; 32];
            if publ.len() >= 32 {
                p32.copy_from_slice(&publ[..32]);
            }
            let pub_scalar = Scalar::from_bytes_mod_order(p32);
            let pub_point = EdwardsPoint::mul_base(&pub_scalar);
            let pub_ris = RistrettoPoint::mul_base(&pub_scalar);
            // canonical secret scalar (reduced outside the window unless the reduction itself is the target)
            let mut sk = Scalar::from_bytes_mod_order(s32);
            let mut sk2 = Scalar::from_bytes_mod_order_wide(&{ let mut w = [0u8; 64]; for i in 0..64 { w[i] = sec[i % sec.len()] ^ (i as u8); } w });
            let n: u64;
            let out: Vec<u8>;
            macro_rules! secret { ($x:expr, $l:expr) => { undefine(&$x, $l) }; }
            match target {
                // ---- scalar arithmetic
                "sc.from_bytes_mod_order" => { secret!(s32, 32); let (r, k) = window(|| Scalar::from_bytes_mod_order(s32)); n = k; out = r.to_bytes().to_vec(); }
                "sc.from_bytes_mod_order_wide" => { let mut w = [0u8; 64]; w[..sec.len().min(64)].copy_from_slice(&sec[..sec.len().min(64)]); secret!(w, 64);
                    let (r, k) = window(|| Scalar::from_bytes_mod_order_wide(&w)); n = k; out = r.to_bytes().to_vec(); }
                "sc.add" | "sc.sub" | "sc.mul" => { secret!(sk, 32); secret!(sk2, 32);
                    let (r, k) = window(|| match target { "sc.add" => &sk + &sk2, "sc.sub" => &sk - &sk2, _ => &sk * &sk2 }); n = k; out = r.to_bytes().to_vec(); }
                "sc.neg" => { secret!(sk, 32); let (r, k) = window(|| -&sk); n = k; out = r.to_bytes().to_vec(); }
                "sc.invert" => { secret!(sk, 32); let (r, k) = window(|| sk.invert()); n = k; out = r.to_bytes().to_vec(); }
                "sc.batch_invert" => { let mut v = [sk, sk2, &sk + &Scalar::ONE]; undefine(&v, 96);
                    let (r, k) = window(|| Scalar::batch_invert(&mut v)); n = k; define(&v, 96); out = r.to_bytes().to_vec(); }
                // ---- points
                "ed.mul_base" => { secret!(sk, 32); let (r, k) = window(|| EdwardsPoint::mul_base(&sk)); n = k; define(&r, 160); out = r.compress().to_bytes().to_vec(); }
                "ed.mul" => { secret!(sk, 32); let (r, k) = window(|| &pub_point * &sk); n = k; define(&r, 160); out = r.compress().to_bytes().to_vec(); }
                "ed.mul_clamped" => { secret!(s32, 32); let (r, k) = window(|| pub_point.mul_clamped(s32)); n = k; define(&r, 160); out = r.compress().to_bytes().to_vec(); }
                "ed.multiscalar_mul" => { let ss = [sk, sk2]; undefine(&ss, 64); let ps = [pub_point, pub_point + pub_point];
                    let (r, k) = window(|| EdwardsPoint::multiscalar_mul(ss.iter(), ps.iter())); n = k; define(&r, 160); out = r.compress().to_bytes().to_vec(); }
                "ed.secret_point_ops" => {
                    // a secret POINT: addition, negation, doubling via add, equality, compression
                    let mut sp = EdwardsPoint::mul_base(&sk); define(&sp, 160); let b = sp.compress(); sp = b.decompress().ok_or("dec")?; undefine(&sp, 160);
                    let (r, k) = window(|| { let q = &sp + &pub_point; let q2 = &q - &sp; let c = (&q2 + &q).compress(); use subtle::ConstantTimeEq; let _ = q.ct_eq(&sp); c });
                    n = k; define(&r, 32); out = r.to_bytes().to_vec(); std::mem::forget(sp); }
                "mont.mul" => { secret!(sk, 32); let m = MontgomeryPoint(p32); let (r, k) = window(|| &m * &sk); n = k; define(&r, 32); out = r.to_bytes().to_vec(); }
                "x.x25519" => { secret!(s32, 32); let (r, k) = window(|| x25519_dalek::x25519(s32, p32)); n = k; define(&r, 32); out = r.to_vec(); }
                "x.dh_static" => { let s = x25519_dalek::StaticSecret::from(s32); undefine(&s, 32); let peer = x25519_dalek::PublicKey::from(p32);
                    let (r, k) = window(|| { let pk = x25519_dalek::PublicKey::from(&s); let ss = s.diffie_hellman(&peer); (pk, ss) }); n = k;
                    define(&r, 64); define(&s, 32); out = r.1.as_bytes().to_vec(); std::mem::forget(r); std::mem::forget(s); }
                "ris.from_uniform_bytes" => { let mut w = [0u8; 64]; for i in 0..64 { w[i] = sec[i % sec.len()] ^ (3 * i as u8); } secret!(w, 64);
                    let (r, k) = window(|| RistrettoPoint::from_uniform_bytes(&w)); n = k; define(&r, 160); out = r.compress().to_bytes().to_vec(); }
                "ris.secret_point_ops" => {
                    let mut sp = RistrettoPoint::mul_base(&sk); define(&sp, 160); undefine(&sp, 160);
                    let (r, k) = window(|| { let q = &sp + &pub_ris; let c = q.compress(); use subtle::ConstantTimeEq; let _ = q.ct_eq(&sp); c });
                    n = k; define(&r, 32); out = r.to_bytes().to_vec(); std::mem::forget(sp); }
                "ris.compress_secret" => {
                    // the encoder on a secret point itself (sk = 0: the identity, where the inverse square root is taken of zero)
                    let sp = RistrettoPoint::mul_base(&sk); undefine(&sp, 160);
                    let (r, k) = window(|| sp.compress());
                    n = k; define(&r, 32); out = r.to_bytes().to_vec(); std::mem::forget(sp); }
                "ris.batch_compress_secret" => {
                    // the batch encoder on secret points (sk = 0: the identity, whose e*f*g*h is zero inside the batch inversion)
                    let ps = [RistrettoPoint::mul_base(&sk), RistrettoPoint::mul_base(&sk2), pub_ris]; undefine(&ps, 320);
                    let (r, k) = window(|| RistrettoPoint::double_and_compress_batch(ps.iter()));
                    n = k; out = r.iter().flat_map(|c| c.to_bytes().to_vec()).collect(); define(&out[0], out.len()); std::mem::forget(ps); }
                "ed.compress_secret" => {
                    let sp = EdwardsPoint::mul_base(&sk); undefine(&sp, 160);
                    let (r, k) = window(|| (sp.compress(), sp.to_montgomery()));
                    n = k; define(&r, 64); out = r.0.to_bytes().to_vec(); std::mem::forget(sp); }
                "ris.mul" => { secret!(sk, 32); let (r, k) = window(|| &pub_ris * &sk); n = k; define(&r, 160); out = r.compress().to_bytes().to_vec(); }
                "ris.multiscalar_mul" => { let ss = [sk, sk2]; undefine(&ss, 64); let ps = [pub_ris, pub_ris + pub_ris];
                    let (r, k) = window(|| RistrettoPoint::multiscalar_mul(ss.iter(), ps.iter())); n = k; define(&r, 160); out = r.compress().to_bytes().to_vec(); }
                // ---- Ed25519
                #[cfg(feature = "ed")]
                "sig.keygen" => { secret!(s32, 32); let (r, k) = window(|| { let sk = ed25519_dalek::SigningKey::from_bytes(&s32); let vk = sk.verifying_key().to_bytes(); std::mem::forget(sk); vk });
                    n = k; define(&r, 32); out = r.to_vec(); }
                #[cfg(feature = "ed")]
                "sig.sign" => { secret!(s32, 32); let (r, k) = window(|| { use ed25519_dalek::Signer; let sk = ed25519_dalek::SigningKey::from_bytes(&s32); let s = sk.sign(&publ).to_bytes(); std::mem::forget(sk); s });
                    n = k; define(&r, 64); out = r.to_vec(); }
                #[cfg(feature = "ed")]
                "sig.sign_prehashed" => { secret!(s32, 32); let (r, k) = window(|| { use sha2::Digest; let sk = ed25519_dalek::SigningKey::from_bytes(&s32);
                        let s = sk.sign_prehashed(Sha512::new().chain_update(&publ), Some(b"ctx")).map(|s| s.to_bytes()).unwrap_or([0u8; 64]); std::mem::forget(sk); s });
                    n = k; define(&r, 64); out = r.to_vec(); }
                // ---- documented variable-time operations: expected to be reported (non-vacuity of the instrument)
                "vt.ed.vartime_multiscalar_mul" => { let ss = [sk, sk2]; undefine(&ss, 64); let ps = [pub_point, pub_point + pub_point];
                    let (r, k) = window(|| EdwardsPoint::vartime_multiscalar_mul(ss.iter(), ps.iter())); n = k; define(&r, 160); out = r.compress().to_bytes().to_vec(); }
                "vt.ed.vartime_double_scalar_mul_basepoint" => { secret!(sk, 32);
                    let (r, k) = window(|| EdwardsPoint::vartime_double_scalar_mul_basepoint(&sk, &pub_point, &pub_scalar)); n = k; define(&r, 160); out = r.compress().to_bytes().to_vec(); }
                _ => return Err(format!("unknown ct target {target}")),
            }
            define(&sk, 32);
            define(&sk2, 32);
            define(&s32, 32);
            let mut o = out.clone();
            define(&o[0], o.len());
            o.truncate(64);
            Ok(json!({"reports": n, "out": jbytes(&o), "valgrind": running_on_valgrind()}))
        }
        _ => Err(format!("unknown op {op}")),
    }
}
