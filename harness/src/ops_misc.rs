//! Everything else.
use crate::*;

pub fn run(op: &str, _e: &Value, ctx: &mut Ctx) -> Result<Value, String> {
    match op {
        "reset" => {
            ctx.regs.clear();
            Ok(json!({}))
        }
        "info" => Ok(json!({
            "backend": hook::backend_name(),
            "nlimbs": hook::NLIMBS,
            "avx2": std::is_x86_feature_detected!("avx2"),
            "ifma": std::is_x86_feature_detected!("avx512ifma") && std::is_x86_feature_detected!("avx512vl"),
            "tables": cfg!(feature = "tables"),
        })),
        "force_backend" => {
            hook::set_forced_backend(uint(_e, "kind")? as u8);
            Ok(json!({}))
        }
        _ => Err(format!("unknown op {op}")),
    }
}
