//! Montgomery / X25519 (C07), Ristretto (C06), Ed25519 (C08, C09, C13), meta ops.
use crate::*;
use curve25519_dalek::ristretto::CompressedRistretto;
use curve25519_dalek::traits::{Identity, MultiscalarMul, VartimeMultiscalarMul};
#[cfg(feature = "ed")]
use ed25519_dalek::{Signature, Signer, SigningKey, Verifier, VerifyingKey};
use sha2::{Digest, Sha512};
use subtle::ConstantTimeEq;

pub fn ris_obs(p: &RistrettoPoint) -> Value {
    json!({"c": jbytes(p.compress().as_bytes())})
}
fn set_ris(ctx: &mut Ctx, e: &Value, p: RistrettoPoint) -> Result<Value, String> {
    ctx.set(&out_name(e)?, Reg::Ris(p));
    Ok(json!({"ok": true, "r": ris_obs(&p)}))
}
fn set_ris_opt(ctx: &mut Ctx, e: &Value, p: Option<RistrettoPoint>) -> Result<Value, String> {
    match p {
        Some(p) => set_ris(ctx, e, p),
        None => {
            ctx.set(&out_name(e)?, Reg::None);
            Ok(json!({"ok": false}))
        }
    }
}
fn ris_points(ctx: &Ctx, v: &Value) -> Result<Vec<RistrettoPoint>, String> {
    v.as_array().ok_or("points")?.iter().map(|x| ris_arg(ctx, x)).collect()
}
fn scalars_of(ctx: &Ctx, v: &Value) -> Result<Vec<Scalar>, String> {
    v.as_array().ok_or("scalars")?.iter().map(|x| sc_arg(ctx, x)).collect()
}
fn sc_bytes(v: &[Scalar]) -> Value {
    Value::Array(v.iter().map(|s| jbytes(&s.to_bytes())).collect())
}

/// An RNG that returns a scripted byte string (for the rand_core constructors).
struct ScriptRng(Vec<u8>, usize);
impl rand_core::RngCore for ScriptRng {
    fn next_u32(&mut self) -> u32 {
        let mut b = [0u8; 4];
        self.fill_bytes(&mut b);
        u32::from_le_bytes(b)
    }
    fn next_u64(&mut self) -> u64 {
        let mut b = [0u8; 8];
        self.fill_bytes(&mut b);
        u64::from_le_bytes(b)
    }
    fn fill_bytes(&mut self, dest: &mut [u8]) {
        for d in dest.iter_mut() {
            *d = self.0[self.1 % self.0.len()];
            self.1 += 1;
        }
    }
    fn try_fill_bytes(&mut self, dest: &mut [u8]) -> Result<(), rand_core::Error> {
        self.fill_bytes(dest);
        Ok(())
    }
}
impl rand_core::CryptoRng for ScriptRng {}

struct RecHasher(Vec<u8>);
impl std::hash::Hasher for RecHasher {
    fn finish(&self) -> u64 {
        0
    }
    fn write(&mut self, bytes: &[u8]) {
        self.0.extend_from_slice(bytes);
    }
}
fn hash_bytes<T: std::hash::Hash>(t: &T) -> Vec<u8> {
    let mut h = RecHasher(Vec::new());
    t.hash(&mut h);
    h.0
}

/// A live typed x25519-dalek secret held by a party of an `xs.*` session.
enum XSecret {
    Eph(x25519_dalek::EphemeralSecret),
    Reu(x25519_dalek::ReusableSecret),
    Sta(x25519_dalek::StaticSecret),
    /// an Ed25519 signing key used for key agreement: StaticSecret from to_scalar_bytes(), public key from to_montgomery()
    Ed(x25519_dalek::StaticSecret, [u8; 32]),
}
type XCell = std::cell::RefCell<Option<XSecret>>;
fn xs_party(e: &Value) -> Result<String, String> {
    Ok(format!("xs:{}", e["p"].as_str().ok_or("xs: missing p")?))
}
fn xs_slot(e: &Value, key: &str) -> Result<String, String> {
    Ok(format!("xw:{}", e[key].as_str().ok_or("xs: missing wire slot")?))
}
fn xs_wire(ctx: &Ctx, e: &Value, key: &str) -> Result<[u8; 32], String> {
    match ctx.get(&xs_slot(e, key)?)? {
        Reg::Bytes(b) if b.len() == 32 => {
            let mut a = [0u8; 32];
            a.copy_from_slice(b);
            Ok(a)
        }
        _ => Err("xs: wire slot is empty".into()),
    }
}
fn xs_secret(ctx: &Ctx, e: &Value) -> Result<std::rc::Rc<dyn std::any::Any>, String> {
    match ctx.get(&xs_party(e)?) {
        Ok(Reg::Any(a)) => Ok(a.clone()),
        _ => Ok(std::rc::Rc::new(XCell::new(None))),
    }
}

fn res_ok<T, E>(r: &Result<T, E>) -> bool {
    r.is_ok()
}

pub fn run(op: &str, e: &Value, ctx: &mut Ctx) -> Result<Value, String> {
    match op {
        "reset" => {
            ctx.regs.clear();
            Ok(json!({}))
        }
        "info" => Ok(json!({
            "backend": hook::backend_name(),
            "nlimbs": hook::NLIMBS,
            "avx2": std::is_x86_feature_detected!("avx2"),
            "ifma": std::is_x86_feature_detected!("avx512ifma") && std::is_x86_feature_detected!("avx512vl"),
            "tables": cfg!(feature = "tables"),
            "ed_legacy": cfg!(feature = "ed_legacy"),
        })),
        "force_backend" => {
            hook::set_forced_backend(uint(e, "kind")? as u8);
            Ok(json!({}))
        }
        // ================= Montgomery / X25519 =====================================
        "mont.mul" | "mont.mul_rev" | "mont.mul_assign" => {
            let u = mont_arg(ctx, inp(e, 0)?)?;
            let s = sc_arg(ctx, inp(e, 1)?)?;
            let r = match op {
                "mont.mul" => &u * &s,
                "mont.mul_rev" => &s * &u,
                _ => { let mut t = u; t *= &s; t }
            };
            Ok(json!({"u": jbytes(u.as_bytes()), "s": jbytes(&s.to_bytes()), "r": jbytes(r.as_bytes())}))
        }
        "mont.mul_clamped" => {
            let u = mont_arg(ctx, inp(e, 0)?)?;
            let r = u.mul_clamped(arr32(inp(e, 1)?)?);
            Ok(json!({"u": jbytes(u.as_bytes()), "r": jbytes(r.as_bytes())}))
        }
        "mont.mul_base" => {
            let s = sc_arg(ctx, inp(e, 0)?)?;
            Ok(json!({"s": jbytes(&s.to_bytes()), "r": jbytes(MontgomeryPoint::mul_base(&s).as_bytes())}))
        }
        "mont.mul_base_clamped" => Ok(json!({"r": jbytes(MontgomeryPoint::mul_base_clamped(arr32(inp(e, 0)?)?).as_bytes())})),
        "mont.mul_bits_be" => {
            let u = mont_arg(ctx, inp(e, 0)?)?;
            let bits: Vec<bool> = e["bits"].as_array().ok_or("bits")?.iter().map(|b| b.as_u64() == Some(1)).collect();
            let r = u.mul_bits_be(bits.into_iter());
            Ok(json!({"u": jbytes(u.as_bytes()), "r": jbytes(r.as_bytes())}))
        }
        "mont.to_edwards" => {
            let u = mont_arg(ctx, inp(e, 0)?)?;
            let r = u.to_edwards(uint(e, "sign")? as u8);
            let name = out_name(e)?;
            match r {
                Some(p) => {
                    ctx.set(&name, Reg::Ed(p));
                    Ok(json!({"u": jbytes(u.as_bytes()), "ok": true, "r": ops_edwards::ed_obs(&p)}))
                }
                None => {
                    ctx.set(&name, Reg::None);
                    Ok(json!({"u": jbytes(u.as_bytes()), "ok": false}))
                }
            }
        }
        "mont.eq" => {
            let a = mont_arg(ctx, inp(e, 0)?)?;
            let b = mont_arg(ctx, inp(e, 1)?)?;
            let ct: bool = a.ct_eq(&b).into();
            Ok(json!({"a": jbytes(a.as_bytes()), "b": jbytes(b.as_bytes()), "ok": a == b, "ct": ct,
                      "hash_eq": hash_bytes(&a) == hash_bytes(&b), "id": jbytes(MontgomeryPoint::identity().as_bytes())}))
        }
        "x.x25519" => {
            let k = arr32(inp(e, 0)?)?;
            let u = arr32(inp(e, 1)?)?;
            Ok(json!({"r": jbytes(&x25519_dalek::x25519(k, u)), "base": jbytes(&x25519_dalek::X25519_BASEPOINT_BYTES)}))
        }
        "x.dh" => {
            // typed Diffie-Hellman: kind in {ephemeral, reusable, static}; in = [secret bytes, their public bytes]
            let sk = arr32(inp(e, 0)?)?;
            let theirs = x25519_dalek::PublicKey::from(arr32(inp(e, 1)?)?);
            let kind = e["kind"].as_str().unwrap_or("static");
            let (pk, ss) = match kind {
                "ephemeral" => {
                    let s = x25519_dalek::EphemeralSecret::random_from_rng(ScriptRng(sk.to_vec(), 0));
                    let pk = x25519_dalek::PublicKey::from(&s);
                    (pk, s.diffie_hellman(&theirs))
                }
                "reusable" => {
                    let s = x25519_dalek::ReusableSecret::random_from_rng(ScriptRng(sk.to_vec(), 0));
                    let pk = x25519_dalek::PublicKey::from(&s);
                    let a = s.diffie_hellman(&theirs);
                    let b = s.clone().diffie_hellman(&theirs);
                    if a.as_bytes() != b.as_bytes() {
                        panic!("reusable secret gave two different shared secrets");
                    }
                    (pk, a)
                }
                _ => {
                    let s = x25519_dalek::StaticSecret::from(sk);
                    if s.to_bytes() != sk || s.as_bytes() != &sk {
                        panic!("StaticSecret does not round-trip its bytes");
                    }
                    let pk = x25519_dalek::PublicKey::from(&s);
                    (pk, s.diffie_hellman(&theirs))
                }
            };
            Ok(json!({"pk": jbytes(pk.as_bytes()), "ss": jbytes(ss.as_bytes()), "contributory": ss.was_contributory(),
                      "theirs": jbytes(theirs.as_bytes())}))
        }
        // ================= X25519 sessions (Xproto.tla): live typed secrets and wire slots ==========
        "xs.new" => {
            let sk = arr32(inp(e, 0)?)?;
            let s = match e["kind"].as_str().unwrap_or("static") {
                "ephemeral" => XSecret::Eph(x25519_dalek::EphemeralSecret::random_from_rng(ScriptRng(sk.to_vec(), 0))),
                "reusable" => XSecret::Reu(x25519_dalek::ReusableSecret::random_from_rng(ScriptRng(sk.to_vec(), 0))),
                #[cfg(feature = "ed")]
                "ed" => {
                    let key = ed25519_dalek::SigningKey::from_bytes(&sk);
                    XSecret::Ed(x25519_dalek::StaticSecret::from(key.to_scalar_bytes()), key.verifying_key().to_montgomery().to_bytes())
                }
                _ => XSecret::Sta(x25519_dalek::StaticSecret::from(sk)),
            };
            ctx.set(&xs_party(e)?, Reg::Any(std::rc::Rc::new(XCell::new(Some(s)))));
            Ok(json!({}))
        }
        "xs.drop" => {
            ctx.set(&xs_party(e)?, Reg::None);
            Ok(json!({}))
        }
        "xs.publish" => {
            let any = xs_secret(ctx, e)?;
            let cell = any.downcast_ref::<XCell>().ok_or("xs: not a secret")?;
            // (what goes on the wire, what PublicKey::from(&secret) says)
            let pk = match cell.borrow().as_ref() {
                Some(XSecret::Eph(s)) => Some((x25519_dalek::PublicKey::from(s), x25519_dalek::PublicKey::from(s))),
                Some(XSecret::Reu(s)) => Some((x25519_dalek::PublicKey::from(s), x25519_dalek::PublicKey::from(s))),
                Some(XSecret::Sta(s)) => Some((x25519_dalek::PublicKey::from(s), x25519_dalek::PublicKey::from(s))),
                Some(XSecret::Ed(s, m)) => Some((x25519_dalek::PublicKey::from(*m), x25519_dalek::PublicKey::from(s))),
                None => None,
            };
            match pk {
                Some((pk, own)) => {
                    ctx.set(&xs_slot(e, "w")?, Reg::Bytes(pk.as_bytes().to_vec()));
                    Ok(json!({"live": true, "u": jbytes(pk.as_bytes()), "to_bytes": jbytes(&own.to_bytes())}))
                }
                None => Ok(json!({"live": false})),
            }
        }
        "xs.inject" => {
            let u = arr32(inp(e, 0)?)?;
            ctx.set(&xs_slot(e, "w")?, Reg::Bytes(u.to_vec()));
            Ok(json!({"u": jbytes(&u)}))
        }
        "xs.copy" => {
            let u = xs_wire(ctx, e, "w")?;
            ctx.set(&xs_slot(e, "w2")?, Reg::Bytes(u.to_vec()));
            Ok(json!({"u": jbytes(&u)}))
        }
        "xs.alias" => {
            // the adversary re-encodes the key on the wire: value + p when that fits below 2^255, top bit as requested
            let u = xs_wire(ctx, e, "w")?;
            let mut v = u;
            v[31] &= 127;
            let p = {
                let mut p = [0xffu8; 32];
                p[0] = 0xed;
                p[31] = 0x7f;
                p
            };
            // canonical value of the low 255 bits
            let ge_p = (0..32).rev().find_map(|i| if v[i] != p[i] { Some(v[i] > p[i]) } else { None }).unwrap_or(true);
            if ge_p {
                let mut borrow = 0i32;
                for i in 0..32 {
                    let d = v[i] as i32 - p[i] as i32 - borrow;
                    borrow = (d < 0) as i32;
                    v[i] = (d & 0xff) as u8;
                }
            }
            if e["addp"].as_bool().unwrap_or(false) {
                let mut w = [0u8; 32];
                let mut carry = 0u32;
                for i in 0..32 {
                    let s = v[i] as u32 + p[i] as u32 + carry;
                    w[i] = s as u8;
                    carry = s >> 8;
                }
                if carry == 0 && w[31] < 128 {
                    v = w;
                }
            } else {
                v = u;
                v[31] &= 127;
            }
            v[31] |= (uint(e, "top")? as u8) << 7;
            ctx.set(&xs_slot(e, "w")?, Reg::Bytes(v.to_vec()));
            Ok(json!({"u": jbytes(&v)}))
        }
        "xs.dh" => {
            let theirs_bytes = xs_wire(ctx, e, "w")?;
            let theirs = x25519_dalek::PublicKey::from(theirs_bytes);
            let any = xs_secret(ctx, e)?;
            let cell = any.downcast_ref::<XCell>().ok_or("xs: not a secret")?;
            let mut slot = cell.borrow_mut();
            let ss = match slot.take() {
                // EphemeralSecret::diffie_hellman consumes the secret: the party is left without one
                Some(XSecret::Eph(s)) => Some(s.diffie_hellman(&theirs)),
                Some(XSecret::Reu(s)) => {
                    let r = s.diffie_hellman(&theirs);
                    *slot = Some(XSecret::Reu(s));
                    Some(r)
                }
                Some(XSecret::Sta(s)) => {
                    let r = s.diffie_hellman(&theirs);
                    *slot = Some(XSecret::Sta(s));
                    Some(r)
                }
                Some(XSecret::Ed(s, m)) => {
                    let r = s.diffie_hellman(&theirs);
                    *slot = Some(XSecret::Ed(s, m));
                    Some(r)
                }
                None => None,
            };
            match ss {
                Some(ss) => Ok(json!({"live": true, "ss": jbytes(ss.as_bytes()), "to_bytes": jbytes(&ss.to_bytes()),
                                      "contributory": ss.was_contributory(), "theirs": jbytes(theirs.as_bytes())})),
                None => Ok(json!({"live": false})),
            }
        }
        // ================= Ristretto =================================================
        "ris.decompress" => {
            let b = arr32(inp(e, 0)?)?;
            set_ris_opt(ctx, e, CompressedRistretto(b).decompress())
        }
        "ris.from_slice" => {
            let b = bytes_of(inp(e, 0)?)?;
            let a = CompressedRistretto::from_slice(&b);
            let t = CompressedRistretto::try_from(&b[..]);
            if a.is_ok() != t.is_ok() {
                panic!("from_slice and TryFrom disagree");
            }
            match a {
                Ok(c) => {
                    let mut o = set_ris_opt(ctx, e, c.decompress())?;
                    o["len_ok"] = json!(true);
                    Ok(o)
                }
                Err(_) => {
                    ctx.set(&out_name(e)?, Reg::None);
                    Ok(json!({"len_ok": false, "ok": false}))
                }
            }
        }
        "ris.basepoint" => set_ris(ctx, e, curve25519_dalek::constants::RISTRETTO_BASEPOINT_POINT),
        "ris.basepoint_compressed" => Ok(json!({"r": jbytes(curve25519_dalek::constants::RISTRETTO_BASEPOINT_COMPRESSED.as_bytes()),
                                               "id": jbytes(CompressedRistretto::identity().as_bytes())})),
        "ris.identity" => set_ris(ctx, e, RistrettoPoint::identity()),
        "ris.default" => set_ris(ctx, e, RistrettoPoint::default()),
        "ris.from_uniform_bytes" => set_ris(ctx, e, RistrettoPoint::from_uniform_bytes(&arr64(inp(e, 0)?)?)),
        "ris.hash_from_bytes" => set_ris(ctx, e, RistrettoPoint::hash_from_bytes::<Sha512>(&bytes_of(inp(e, 0)?)?)),
        "ris.from_hash" => {
            let mut h = Sha512::new();
            h.update(bytes_of(inp(e, 0)?)?);
            set_ris(ctx, e, RistrettoPoint::from_hash(h))
        }
        "ris.add" | "ris.sub" | "ris.add_assign" | "ris.sub_assign" => {
            let a = ris_arg(ctx, inp(e, 0)?)?;
            let b = ris_arg(ctx, inp(e, 1)?)?;
            let r = match op {
                "ris.add" => &a + &b,
                "ris.sub" => &a - &b,
                "ris.add_assign" => { let mut t = a; t += &b; t }
                _ => { let mut t = a; t -= &b; t }
            };
            set_ris(ctx, e, r)
        }
        "ris.neg" | "ris.copy" => {
            let a = ris_arg(ctx, inp(e, 0)?)?;
            set_ris(ctx, e, if op == "ris.neg" { -&a } else { a })
        }
        "ris.sum" => {
            let ps = ris_points(ctx, &e["in"])?;
            set_ris(ctx, e, ps.iter().sum())
        }
        "ris.torsion_translate" => {
            // another internal representative of the same element: add a 4-torsion point (hook)
            let a = ris_arg(ctx, inp(e, 0)?)?;
            let t = curve25519_dalek::constants::EIGHT_TORSION[(2 * uint(e, "k")? as usize) % 8];
            let r = hook::ristretto_from_edwards(&(hook::ristretto_as_edwards(&a) + t));
            set_ris(ctx, e, r)
        }
        "ris.cond_select" => {
            use subtle::ConditionallySelectable;
            let a = ris_arg(ctx, inp(e, 0)?)?;
            let b = ris_arg(ctx, inp(e, 1)?)?;
            set_ris(ctx, e, RistrettoPoint::conditional_select(&a, &b, subtle::Choice::from(flag(e, "c")? as u8)))
        }
        "ris.mul" | "ris.mul_rev" | "ris.mul_assign" => {
            let a = ris_arg(ctx, inp(e, 0)?)?;
            let s = sc_arg(ctx, inp(e, 1)?)?;
            let r = match op {
                "ris.mul" => &a * &s,
                "ris.mul_rev" => &s * &a,
                _ => { let mut t = a; t *= &s; t }
            };
            let mut o = set_ris(ctx, e, r)?;
            o["s"] = jbytes(&s.to_bytes());
            Ok(o)
        }
        "ris.mul_base" => {
            let s = sc_arg(ctx, inp(e, 0)?)?;
            let r = RistrettoPoint::mul_base(&s);
            #[cfg(feature = "tables")]
            {
                let t = &s * curve25519_dalek::constants::RISTRETTO_BASEPOINT_TABLE;
                if t != r {
                    panic!("RISTRETTO_BASEPOINT_TABLE disagrees with mul_base");
                }
            }
            let mut o = set_ris(ctx, e, r)?;
            o["s"] = jbytes(&s.to_bytes());
            Ok(o)
        }
        "ris.vartime_double_scalar_mul_basepoint" => {
            let a = sc_arg(ctx, inp(e, 0)?)?;
            let p = ris_arg(ctx, inp(e, 1)?)?;
            let b = sc_arg(ctx, inp(e, 2)?)?;
            let mut o = set_ris(ctx, e, RistrettoPoint::vartime_double_scalar_mul_basepoint(&a, &p, &b))?;
            o["a"] = jbytes(&a.to_bytes());
            o["b"] = jbytes(&b.to_bytes());
            Ok(o)
        }
        "ris.multiscalar_mul" | "ris.vartime_multiscalar_mul" | "ris.optional_multiscalar_mul" => {
            let ss = scalars_of(ctx, &e["scalars"])?;
            let r = if op == "ris.optional_multiscalar_mul" {
                let ps: Result<Vec<Option<RistrettoPoint>>, String> = e["points"].as_array().ok_or("points")?.iter().map(|x| {
                    match ctx.get(x.as_str().unwrap_or(""))? { Reg::Ris(p) => Ok(Some(*p)), Reg::None => Ok(None), _ => Err("bad reg".to_string()) }
                }).collect();
                RistrettoPoint::optional_multiscalar_mul(ss.iter(), ps?.into_iter())
            } else {
                let ps = ris_points(ctx, &e["points"])?;
                Some(if op == "ris.multiscalar_mul" { RistrettoPoint::multiscalar_mul(ss.iter(), ps.iter()) } else { RistrettoPoint::vartime_multiscalar_mul(ss.iter(), ps.iter()) })
            };
            let mut o = set_ris_opt(ctx, e, r)?;
            o["ss"] = sc_bytes(&ss);
            Ok(o)
        }
        // ---- rand_core constructors with a scripted RNG: in[0] = the bytes the RNG will return
        "rng.scalar" => {
            let b = bytes_of(inp(e, 0)?)?;
            let r = Scalar::random(&mut ScriptRng(b, 0));
            ctx.set(&out_name(e)?, Reg::Sc(r));
            Ok(json!({"r": jbytes(&r.to_bytes())}))
        }
        "rng.ristretto" => {
            let b = bytes_of(inp(e, 0)?)?;
            set_ris(ctx, e, RistrettoPoint::random(&mut ScriptRng(b, 0)))
        }
        #[cfg(feature = "ed")]
        "rng.signing_key" => {
            let b = bytes_of(inp(e, 0)?)?;
            let k = SigningKey::generate(&mut ScriptRng(b, 0));
            Ok(json!({"sk": jbytes(&k.to_bytes()), "pk": jbytes(k.verifying_key().as_bytes())}))
        }
        #[cfg(feature = "tables")]
        "ris.table" => {
            // RistrettoBasepointTable::create(P), then basepoint() and both multiplication orders
            let p = ris_arg(ctx, inp(e, 0)?)?;
            let s = sc_arg(ctx, inp(e, 1)?)?;
            let t = curve25519_dalek::ristretto::RistrettoBasepointTable::create(&p);
            let a = &t * &s;
            let b = &s * &t;
            if a != b {
                panic!("table * scalar and scalar * table disagree");
            }
            let mut o = set_ris(ctx, e, a)?;
            o["s"] = jbytes(&s.to_bytes());
            o["bp"] = ris_obs(&t.basepoint());
            Ok(o)
        }
        "ris.compress" => {
            let a = ris_arg(ctx, inp(e, 0)?)?;
            Ok(json!({"r": ris_obs(&a)}))
        }
        "ris.eq" => {
            let a = ris_arg(ctx, inp(e, 0)?)?;
            let b = ris_arg(ctx, inp(e, 1)?)?;
            let ct: bool = a.ct_eq(&b).into();
            Ok(json!({"ok": a == b, "ct": ct, "cc": a.compress() == b.compress()}))
        }
        // equality of the WIRE types is equality of the 32 bytes, through every equality the type offers
        "enc.eq" => {
            let a = arr32(inp(e, 0)?)?;
            let b = arr32(inp(e, 1)?)?;
            let (eq, ct, h) = match e["kind"].as_str().unwrap_or("") {
                "ristretto" => {
                    let (x, y) = (CompressedRistretto(a), CompressedRistretto(b));
                    (x == y, bool::from(x.ct_eq(&y)), hash_bytes(&x) == hash_bytes(&y))
                }
                "edwards" => {
                    let (x, y) = (curve25519_dalek::edwards::CompressedEdwardsY(a), curve25519_dalek::edwards::CompressedEdwardsY(b));
                    (x == y, bool::from(x.ct_eq(&y)), hash_bytes(&x) == hash_bytes(&y))
                }
                k => return Err(format!("enc.eq: unknown kind {k}")),
            };
            Ok(json!({"eq": eq, "ct": ct, "hash_eq": h}))
        }
        "ris.double_and_compress_batch" => {
            let ps = ris_points(ctx, &e["in"])?;
            let r = RistrettoPoint::double_and_compress_batch(ps.iter());
            Ok(json!({"rs": r.iter().map(|c| jbytes(c.as_bytes())).collect::<Vec<_>>()}))
        }
        // ================= Ed25519 ====================================================
        #[cfg(feature = "ed")]
        "sig.keygen" => {
            // seed -> signing key; every view of the key pair
            let seed = arr32(inp(e, 0)?)?;
            let sk = SigningKey::from_bytes(&seed);
            let sk2 = SigningKey::from(seed);
            let sk3 = SigningKey::try_from(&seed[..]).map_err(|_| "TryFrom failed")?;
            if sk != sk2 || sk != sk3 {
                panic!("SigningKey constructors disagree");
            }
            let vk = sk.verifying_key();
            let vk2 = VerifyingKey::from(&sk);
            let esk = ed25519_dalek::hazmat::ExpandedSecretKey::from(&seed);
            let vk3 = VerifyingKey::from(&esk);
            if vk != vk2 || vk != vk3 || sk.as_ref() != &vk {
                panic!("verifying key views disagree");
            }
            Ok(json!({"pk": jbytes(vk.as_bytes()), "sk": jbytes(&sk.to_bytes()), "kp": jbytes(&sk.to_keypair_bytes()),
                      "scalar_bytes": jbytes(&sk.to_scalar_bytes()), "scalar": jbytes(&sk.to_scalar().to_bytes()),
                      "mont": jbytes(vk.to_montgomery().as_bytes()), "weak": vk.is_weak()}))
        }
        #[cfg(feature = "ed")]
        "sig.from_keypair_bytes" => {
            let b = arr64(inp(e, 0)?)?;
            let r = SigningKey::from_keypair_bytes(&b);
            Ok(json!({"ok": res_ok(&r), "pk": r.map(|k| jbytes(k.verifying_key().as_bytes())).unwrap_or(json!([]))}))
        }
        #[cfg(feature = "ed")]
        "sig.sk_from_slice" => {
            let b = bytes_of(inp(e, 0)?)?;
            let r = SigningKey::try_from(&b[..]);
            let x = ed25519_dalek::hazmat::ExpandedSecretKey::from_slice(&b);
            let x2 = ed25519_dalek::hazmat::ExpandedSecretKey::try_from(&b[..]);
            Ok(json!({"ok": res_ok(&r), "esk_ok": res_ok(&x), "esk_ok2": res_ok(&x2)}))
        }
        #[cfg(feature = "ed")]
        "sig.sign" => {
            // in = [seed, message]; pure Ed25519 through every signing path
            let seed = arr32(inp(e, 0)?)?;
            let m = bytes_of(inp(e, 1)?)?;
            let sk = SigningKey::from_bytes(&seed);
            let s1 = sk.sign(&m);
            let s2 = sk.try_sign(&m).map_err(|_| "try_sign failed")?;
            let esk = ed25519_dalek::hazmat::ExpandedSecretKey::from(&seed);
            let s3 = ed25519_dalek::hazmat::raw_sign::<Sha512>(&esk, &m, &sk.verifying_key());
            if s1 != s2 || s1 != s3 {
                panic!("signing paths disagree");
            }
            Ok(json!({"sig": jbytes(&s1.to_bytes()), "pk": jbytes(sk.verifying_key().as_bytes())}))
        }
        #[cfg(feature = "ed")]
        "sig.sign_expanded" => {
            // in = [64-byte expanded key, message]: hazmat signing with an arbitrary expanded key
            let h = arr64(inp(e, 0)?)?;
            let m = bytes_of(inp(e, 1)?)?;
            let esk = ed25519_dalek::hazmat::ExpandedSecretKey::from_bytes(&h);
            let vk = VerifyingKey::from(&esk);
            let s = ed25519_dalek::hazmat::raw_sign::<Sha512>(&esk, &m, &vk);
            Ok(json!({"sig": jbytes(&s.to_bytes()), "pk": jbytes(vk.as_bytes())}))
        }
        #[cfg(feature = "ed")]
        "sig.sign_prehashed" => {
            // in = [seed, message, context]; "noctx": true passes None
            let seed = arr32(inp(e, 0)?)?;
            let m = bytes_of(inp(e, 1)?)?;
            let c = bytes_of(inp(e, 2)?)?;
            let noctx = flag(e, "noctx").unwrap_or(false);
            let sk = SigningKey::from_bytes(&seed);
            let ph = || Sha512::new().chain_update(&m);
            let r1 = sk.sign_prehashed(ph(), if noctx { None } else { Some(&c[..]) });
            let esk = ed25519_dalek::hazmat::ExpandedSecretKey::from(&seed);
            let r2 = ed25519_dalek::hazmat::raw_sign_prehashed::<Sha512, Sha512>(&esk, ph(), &sk.verifying_key(), if noctx { None } else { Some(&c[..]) });
            if r1.is_ok() != r2.is_ok() || (r1.is_ok() && r1.as_ref().unwrap() != r2.as_ref().unwrap()) {
                panic!("prehashed signing paths disagree");
            }
            // the Context / DigestSigner path
            let wc = sk.with_context(&c);
            let ctx_ok = wc.is_ok();
            let mut s3 = json!([]);
            if let Ok(wc) = wc {
                use ed25519_dalek::DigestSigner;
                if let Ok(s) = wc.try_sign_digest(ph()) {
                    s3 = jbytes(&s.to_bytes());
                }
            }
            Ok(json!({"ok": r1.is_ok(), "sig": r1.map(|s| jbytes(&s.to_bytes())).unwrap_or(json!([])), "ctx_ok": ctx_ok, "sig_ctx": s3,
                      "pk": jbytes(sk.verifying_key().as_bytes())}))
        }
        #[cfg(feature = "ed")]
        "sig.verify" => {
            // in = [public key bytes, message, signature bytes(64), context]; every verification variant
            let pk = arr32(inp(e, 0)?)?;
            let m = bytes_of(inp(e, 1)?)?;
            let sb = bytes_of(inp(e, 2)?)?;
            let c = bytes_of(inp(e, 3)?)?;
            let vk = VerifyingKey::from_bytes(&pk);
            let vk2 = VerifyingKey::try_from(&pk[..]);
            if vk.is_ok() != vk2.is_ok() {
                panic!("VerifyingKey::from_bytes and TryFrom disagree");
            }
            let sig = Signature::from_slice(&sb);
            let vk_slice = vk2.ok();
            let (vk, sig) = match (vk, sig) {
                (Ok(v), Ok(s)) => (v, s),
                (v, s) => return Ok(json!({"key_ok": v.is_ok(), "sig_ok": s.is_ok()})),
            };
            // every constructor keeps the SUPPLIED bytes (acceptance is defined on them, also for non-canonical encodings)
            let v2 = vk_slice.ok_or("unreachable")?;
            let key_bytes = vec![jbytes(&vk.to_bytes()), jbytes(vk.as_bytes()), jbytes(&v2.to_bytes()), jbytes(v2.as_bytes()), jbytes(vk.as_ref())];
            let slice_key_same = v2 == vk && v2.verify(&m, &sig).is_ok() == vk.verify(&m, &sig).is_ok() && v2.verify_strict(&m, &sig).is_ok() == vk.verify_strict(&m, &sig).is_ok();
            let ph = || Sha512::new().chain_update(&m);
            let short = c.len() <= 255;
            let mut o = json!({"key_ok": true, "sig_ok": true,
                "verify": vk.verify(&m, &sig).is_ok(),
                "verify2": Verifier::verify(&vk, &m, &sig).is_ok(),
                "strict": vk.verify_strict(&m, &sig).is_ok(),
                "raw": ed25519_dalek::hazmat::raw_verify::<Sha512>(&vk, &m, &sig).is_ok(),
                "weak": vk.is_weak(),
                "pk_edwards": jbytes(vk.to_edwards().compress().as_bytes()),
                "key_bytes": key_bytes, "slice_key_same": slice_key_same,
            });
            if short {
                o["ph"] = json!(vk.verify_prehashed(ph(), Some(&c), &sig).is_ok());
                o["ph_strict"] = json!(vk.verify_prehashed_strict(ph(), Some(&c), &sig).is_ok());
                o["ph_raw"] = json!(ed25519_dalek::hazmat::raw_verify_prehashed::<Sha512, Sha512>(&vk, ph(), Some(&c), &sig).is_ok());
                o["ph_none"] = json!(vk.verify_prehashed(ph(), None, &sig).is_ok());
                if let Ok(wc) = vk.with_context(&c) {
                    use ed25519_dalek::DigestVerifier;
                    o["ph_ctx"] = json!(wc.verify_digest(ph(), &sig).is_ok());
                }
            } else {
                o["ctx_refused"] = json!(vk.with_context(&c).is_err());
                // a context longer than 255 bytes is malformed input: each prehashed verifier must answer Err (its own
                // catch_unwind, so that a panic here is reported in this field and the rest of the event survives)
                let long = |f: &dyn Fn() -> bool| -> String {
                    match std::panic::catch_unwind(std::panic::AssertUnwindSafe(f)) {
                        Ok(true) => "ok".into(),
                        Ok(false) => "err".into(),
                        Err(_) => "panic".into(),
                    }
                };
                o["ph_long"] = json!(long(&|| vk.verify_prehashed(ph(), Some(&c), &sig).is_ok()));
                o["ph_long_strict"] = json!(long(&|| vk.verify_prehashed_strict(ph(), Some(&c), &sig).is_ok()));
                o["ph_long_raw"] = json!(long(&|| ed25519_dalek::hazmat::raw_verify_prehashed::<Sha512, Sha512>(&vk, ph(), Some(&c), &sig).is_ok()));
            }
            Ok(o)
        }
        #[cfg(feature = "ed")]
        "sig.verify_batch" => {
            // entries: [[pk, msg, sig], ...]; optional "lens": [n_msgs, n_sigs, n_keys] to truncate the slices
            let ents = e["entries"].as_array().ok_or("entries")?;
            let mut msgs: Vec<Vec<u8>> = Vec::new();
            let mut sigs = Vec::new();
            let mut keys = Vec::new();
            for x in ents {
                let pk = arr32(&x[0])?;
                msgs.push(bytes_of(&x[1])?);
                sigs.push(Signature::from_bytes(&arr64(&x[2])?));
                match VerifyingKey::from_bytes(&pk) {
                    Ok(k) => keys.push(k),
                    Err(_) => return Ok(json!({"key_ok": false})),
                }
            }
            let mut mrefs: Vec<&[u8]> = msgs.iter().map(|m| &m[..]).collect();
            if let Some(l) = e["lens"].as_array() {
                mrefs.truncate(l[0].as_u64().unwrap_or(0) as usize);
                sigs.truncate(l[1].as_u64().unwrap_or(0) as usize);
                keys.truncate(l[2].as_u64().unwrap_or(0) as usize);
            }
            let _ = ed25519_dalek::verif::take_batch_coefficients();
            let r1 = ed25519_dalek::verify_batch(&mrefs, &sigs, &keys).is_ok();
            let z1 = ed25519_dalek::verif::take_batch_coefficients();
            let r2 = ed25519_dalek::verify_batch(&mrefs, &sigs, &keys).is_ok();
            let z2 = ed25519_dalek::verif::take_batch_coefficients();
            let mut o = json!({"key_ok": true, "ok": r1, "again": r2, "zs": z1.iter().map(|z| jbytes(z)).collect::<Vec<_>>(), "zs_again": z2.iter().map(|z| jbytes(z)).collect::<Vec<_>>()});
            // the adaptive adversary of batch verification: knowing the coefficients z of THIS batch (they are a public function of the
            // batch), change S_0 and S_1 so that sum z_i S_i stays the same: S_0 += z_1 t, S_1 -= z_0 t.  Both entries become invalid; the
            // batch is still accepted if and only if the coefficients did not move with S.
            if e["adaptive"].as_bool().unwrap_or(false) && z1.len() >= 2 && sigs.len() >= 2 && sigs.len() == keys.len() && mrefs.len() == keys.len() {
                let t = Scalar::from(0x1234_5678_9abc_def1u64);
                let z = |k: usize| Scalar::from_bytes_mod_order(z1[k]);
                let s_of = |g: &Signature| Scalar::from_bytes_mod_order(g.to_bytes()[32..].try_into().unwrap());
                let put = |g: &Signature, s: Scalar| { let mut b = g.to_bytes(); b[32..].copy_from_slice(s.as_bytes()); Signature::from_bytes(&b) };
                let mut att = sigs.clone();
                att[0] = put(&sigs[0], s_of(&sigs[0]) + z(1) * t);
                att[1] = put(&sigs[1], s_of(&sigs[1]) - z(0) * t);
                o["att_ok"] = json!(ed25519_dalek::verify_batch(&mrefs, &att, &keys).is_ok());
                o["att_sigs"] = Value::Array(att.iter().map(|g| jbytes(&g.to_bytes())).collect());
            }
            Ok(o)
        }
        _ => Err(format!("unknown op {op}")),
    }
}
