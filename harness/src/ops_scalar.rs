//! Scalar operations through the public API (C02) and the recoding hooks (C04).
use crate::*;
use sha2::{Digest, Sha512};

fn sc(s: &Scalar) -> Value {
    jbytes(&s.to_bytes())
}

pub fn run(op: &str, e: &Value, ctx: &mut Ctx) -> Result<Value, String> {
    match op {
        // constructors -----------------------------------------------------------
        "sc.from_bytes_mod_order" => {
            let r = Scalar::from_bytes_mod_order(arr32(inp(e, 0)?)?);
            ctx.set(&out_name(e)?, Reg::Sc(r));
            Ok(json!({"r": sc(&r)}))
        }
        "sc.from_bytes_mod_order_wide" => {
            let r = Scalar::from_bytes_mod_order_wide(&arr64(inp(e, 0)?)?);
            ctx.set(&out_name(e)?, Reg::Sc(r));
            Ok(json!({"r": sc(&r)}))
        }
        "sc.from_canonical_bytes" => {
            let r: Option<Scalar> = Scalar::from_canonical_bytes(arr32(inp(e, 0)?)?).into();
            match r {
                Some(s) => {
                    ctx.set(&out_name(e)?, Reg::Sc(s));
                    Ok(json!({"ok": true, "r": sc(&s)}))
                }
                None => {
                    ctx.set(&out_name(e)?, Reg::None);
                    Ok(json!({"ok": false, "r": []}))
                }
            }
        }
        "sc.from_bits" => {
            // the documented unreduced constructor (feature legacy_compatibility) or its
            // definition through the hook when the feature is off: clear bit 255 only
            let b = arr32(inp(e, 0)?)?;
            #[cfg(feature = "cd_legacy")]
            #[allow(deprecated)]
            let r = Scalar::from_bits(b);
            #[cfg(not(feature = "cd_legacy"))]
            let r = {
                let mut b = b;
                b[31] &= 0x7f;
                hook::scalar_from_raw_bytes(b)
            };
            ctx.set(&out_name(e)?, Reg::Sc(r));
            Ok(json!({"r": sc(&r)}))
        }
        "sc.hash_from_bytes" => {
            let m = bytes_of(inp(e, 0)?)?;
            let r = Scalar::hash_from_bytes::<Sha512>(&m);
            ctx.set(&out_name(e)?, Reg::Sc(r));
            Ok(json!({"r": sc(&r)}))
        }
        "sc.from_hash" => {
            let m = bytes_of(inp(e, 0)?)?;
            let mut h = Sha512::new();
            // fed in two pieces to exercise the streaming interface
            let k = m.len() / 2;
            h.update(&m[..k]);
            h.update(&m[k..]);
            let r = Scalar::from_hash(h);
            ctx.set(&out_name(e)?, Reg::Sc(r));
            Ok(json!({"r": sc(&r)}))
        }
        "sc.from_uint" => {
            let b = bytes_of(inp(e, 0)?)?;
            let mut w = [0u8; 16];
            w[..b.len()].copy_from_slice(&b);
            let r = match b.len() {
                1 => Scalar::from(w[0]),
                2 => Scalar::from(u16::from_le_bytes([w[0], w[1]])),
                4 => Scalar::from(u32::from_le_bytes([w[0], w[1], w[2], w[3]])),
                8 => Scalar::from(u64::from_le_bytes(w[..8].try_into().unwrap())),
                16 => Scalar::from(u128::from_le_bytes(w)),
                _ => return Err("sc.from_uint: width".into()),
            };
            ctx.set(&out_name(e)?, Reg::Sc(r));
            Ok(json!({"r": sc(&r)}))
        }
        "sc.clamp_integer" => {
            let r = curve25519_dalek::scalar::clamp_integer(arr32(inp(e, 0)?)?);
            Ok(json!({"r": jbytes(&r)}))
        }
        // arithmetic -------------------------------------------------------------
        "sc.add" | "sc.sub" | "sc.mul" | "sc.add_assign" | "sc.sub_assign" | "sc.mul_assign"
        | "sc.add_owned" | "sc.sub_owned" | "sc.mul_owned" => {
            let a = sc_arg(ctx, inp(e, 0)?)?;
            let b = sc_arg(ctx, inp(e, 1)?)?;
            let r = match op {
                "sc.add" => &a + &b,
                "sc.sub" => &a - &b,
                "sc.mul" => &a * &b,
                "sc.add_owned" => a + b,
                "sc.sub_owned" => a - b,
                "sc.mul_owned" => a * b,
                "sc.add_assign" => { let mut t = a; t += &b; t }
                "sc.sub_assign" => { let mut t = a; t -= b; t }
                _ => { let mut t = a; t *= &b; t }
            };
            ctx.set(&out_name(e)?, Reg::Sc(r));
            Ok(json!({"a": sc(&a), "b": sc(&b), "r": sc(&r)}))
        }
        "sc.neg" | "sc.neg_owned" | "sc.invert" | "sc.reencode" => {
            let a = sc_arg(ctx, inp(e, 0)?)?;
            let r = match op {
                "sc.neg" => -&a,
                "sc.neg_owned" => -a,
                "sc.invert" => a.invert(),
                _ => {
                    // to_bytes / as_bytes / Index agree
                    let tb = a.to_bytes();
                    let ab = *a.as_bytes();
                    let mut ib = [0u8; 32];
                    for i in 0..32 {
                        ib[i] = a[i];
                    }
                    if tb != ab || tb != ib {
                        panic!("to_bytes/as_bytes/Index disagree");
                    }
                    hook::scalar_from_raw_bytes(tb)
                }
            };
            ctx.set(&out_name(e)?, Reg::Sc(r));
            Ok(json!({"a": sc(&a), "r": sc(&r)}))
        }
        "sc.sum" | "sc.product" => {
            let mut v = Vec::new();
            for i in 0..n_in(e) {
                v.push(sc_arg(ctx, inp(e, i)?)?);
            }
            let r: Scalar = if op == "sc.sum" { v.iter().sum() } else { v.iter().product() };
            ctx.set(&out_name(e)?, Reg::Sc(r));
            Ok(json!({"as": v.iter().map(sc).collect::<Vec<_>>(), "r": sc(&r)}))
        }
        "sc.batch_invert" => {
            let mut v = Vec::new();
            for i in 0..n_in(e) {
                v.push(sc_arg(ctx, inp(e, i)?)?);
            }
            let ins: Vec<Value> = v.iter().map(sc).collect();
            let p = Scalar::batch_invert(&mut v);
            Ok(json!({"as": ins, "rs": v.iter().map(sc).collect::<Vec<_>>(), "r": sc(&p)}))
        }
        "sc.eq" => {
            let a = sc_arg(ctx, inp(e, 0)?)?;
            let b = sc_arg(ctx, inp(e, 1)?)?;
            use subtle::ConstantTimeEq;
            let c: bool = a.ct_eq(&b).into();
            Ok(json!({"a": sc(&a), "b": sc(&b), "ok": a == b, "ct": c}))
        }
        "sc.cond_select" => {
            let a = sc_arg(ctx, inp(e, 0)?)?;
            let b = sc_arg(ctx, inp(e, 1)?)?;
            use subtle::ConditionallySelectable;
            let r = Scalar::conditional_select(&a, &b, subtle::Choice::from(flag(e, "c")? as u8));
            ctx.set(&out_name(e)?, Reg::Sc(r));
            Ok(json!({"a": sc(&a), "b": sc(&b), "r": sc(&r)}))
        }
        // recodings (hook) ---------------------------------------------------------
        "sc.as_radix_16" => {
            let a = sc_arg(ctx, inp(e, 0)?)?;
            Ok(json!({"a": sc(&a), "digits": ji8s(&hook::scalar_as_radix_16(&a))}))
        }
        "sc.as_radix_2w" => {
            let a = sc_arg(ctx, inp(e, 0)?)?;
            let w = uint(e, "w")? as usize;
            Ok(json!({"a": sc(&a), "digits": ji8s(&hook::scalar_as_radix_2w(&a, w)),
                      "hint": hook::scalar_to_radix_2w_size_hint(w)}))
        }
        "sc.non_adjacent_form" => {
            let a = sc_arg(ctx, inp(e, 0)?)?;
            let w = uint(e, "w")? as usize;
            Ok(json!({"a": sc(&a), "digits": ji8s(&hook::scalar_non_adjacent_form(&a, w))}))
        }
        _ => Err(format!("unknown op {op}")),
    }
}
