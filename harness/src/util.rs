//! JSON helpers and argument resolution.
use crate::*;

pub fn jbytes(b: &[u8]) -> Value {
    Value::Array(b.iter().map(|x| json!(*x)).collect())
}
pub fn jlimbs(l: &[u64]) -> Value {
    Value::Array(l.iter().map(|x| jbytes(&x.to_le_bytes())).collect())
}
pub fn ji8s(d: &[i8]) -> Value {
    Value::Array(d.iter().map(|x| json!(*x as i64)).collect())
}
pub fn bytes_of(v: &Value) -> Result<Vec<u8>, String> {
    let a = v.as_array().ok_or("expected byte array")?;
    a.iter()
        .map(|x| x.as_u64().filter(|n| *n < 256).map(|n| n as u8).ok_or_else(|| "bad byte".to_string()))
        .collect()
}
pub fn arr32(v: &Value) -> Result<[u8; 32], String> {
    let b = bytes_of(v)?;
    <[u8; 32]>::try_from(b.as_slice()).map_err(|_| format!("expected 32 bytes, got {}", b.len()))
}
pub fn arr64(v: &Value) -> Result<[u8; 64], String> {
    let b = bytes_of(v)?;
    <[u8; 64]>::try_from(b.as_slice()).map_err(|_| format!("expected 64 bytes, got {}", b.len()))
}
pub fn limbs_of(v: &Value) -> Result<Vec<u64>, String> {
    let a = v.as_array().ok_or("expected limb array")?;
    a.iter()
        .map(|x| {
            let b = bytes_of(x)?;
            let mut w = [0u8; 8];
            if b.len() > 8 {
                return Err("limb too long".into());
            }
            w[..b.len()].copy_from_slice(&b);
            Ok(u64::from_le_bytes(w))
        })
        .collect()
}
pub fn inp(e: &Value, i: usize) -> Result<&Value, String> {
    e["in"].get(i).ok_or_else(|| format!("missing input {i}"))
}
pub fn n_in(e: &Value) -> usize {
    e["in"].as_array().map(|a| a.len()).unwrap_or(0)
}
pub fn out_name(e: &Value) -> Result<String, String> {
    e["out"].as_str().map(|s| s.to_string()).ok_or_else(|| "missing out".to_string())
}
pub fn out_names(e: &Value) -> Result<Vec<String>, String> {
    match &e["out"] {
        Value::Array(a) => a.iter().map(|s| s.as_str().map(|s| s.to_string()).ok_or_else(|| "bad out".to_string())).collect(),
        Value::String(s) => Ok(vec![s.clone()]),
        _ => Err("missing out".into()),
    }
}
pub fn uint(e: &Value, key: &str) -> Result<u64, String> {
    e[key].as_u64().ok_or_else(|| format!("missing integer {key}"))
}
pub fn flag(e: &Value, key: &str) -> Result<bool, String> {
    e[key].as_bool().ok_or_else(|| format!("missing bool {key}"))
}

/// A field element argument: register name, limb array (array of byte arrays) or 32 bytes.
pub fn fe_arg(ctx: &Ctx, v: &Value) -> Result<Fe, String> {
    match v {
        Value::String(s) => match ctx.get(s)? {
            Reg::Fe(f) => Ok(*f),
            _ => Err(format!("register {s} is not a field element")),
        },
        Value::Array(a) if !a.is_empty() && a[0].is_array() => Ok(Fe::from_limbs(&limbs_of(v)?)),
        _ => Ok(Fe::from_bytes(&arr32(v)?)),
    }
}
/// A scalar argument: register name or 32 literal bytes (held as given, no reduction).
pub fn sc_arg(ctx: &Ctx, v: &Value) -> Result<Scalar, String> {
    match v {
        Value::String(s) => match ctx.get(s)? {
            Reg::Sc(x) => Ok(*x),
            _ => Err(format!("register {s} is not a scalar")),
        },
        _ => Ok(hook::scalar_from_raw_bytes(arr32(v)?)),
    }
}
pub fn ed_arg(ctx: &Ctx, v: &Value) -> Result<EdwardsPoint, String> {
    match v {
        Value::String(s) => match ctx.get(s)? {
            Reg::Ed(x) => Ok(*x),
            _ => Err(format!("register {s} is not an Edwards point")),
        },
        _ => Err("Edwards point arguments must be registers".into()),
    }
}
pub fn ed_opt_arg(ctx: &Ctx, v: &Value) -> Result<Option<EdwardsPoint>, String> {
    match v {
        Value::String(s) => match ctx.get(s)? {
            Reg::Ed(x) => Ok(Some(*x)),
            Reg::None => Ok(None),
            _ => Err(format!("register {s} is not an Edwards point")),
        },
        _ => Err("Edwards point arguments must be registers".into()),
    }
}
pub fn ris_arg(ctx: &Ctx, v: &Value) -> Result<RistrettoPoint, String> {
    match v {
        Value::String(s) => match ctx.get(s)? {
            Reg::Ris(x) => Ok(*x),
            _ => Err(format!("register {s} is not a Ristretto point")),
        },
        _ => Err("Ristretto point arguments must be registers".into()),
    }
}
pub fn mont_arg(ctx: &Ctx, v: &Value) -> Result<MontgomeryPoint, String> {
    match v {
        Value::String(s) => match ctx.get(s)? {
            Reg::Mont(x) => Ok(*x),
            _ => Err(format!("register {s} is not a Montgomery point")),
        },
        _ => Ok(MontgomeryPoint(arr32(v)?)),
    }
}
pub fn fe_limbs(f: &Fe) -> Value {
    jlimbs(&f.limbs()[..hook::NLIMBS])
}
/// Observation of a field element: raw limbs and canonical bytes.
pub fn fe_obs(f: &Fe) -> Value {
    json!({"limbs": fe_limbs(f), "bytes": jbytes(&f.as_bytes())})
}
