//! Total decoders (C15), serde (C16), ff/group traits (C17).
use crate::*;
use curve25519_dalek::edwards::CompressedEdwardsY;
use curve25519_dalek::ristretto::CompressedRistretto;
use ed25519_dalek::{Signature, SigningKey, VerifyingKey};
use sha2::Sha512;

fn ser<T: serde::Serialize>(v: &T) -> Value {
    let b = bincode::serialize(v).map(|x| jbytes(&x)).unwrap_or(json!("err"));
    let j = serde_json::to_value(v).unwrap_or(json!("err"));
    json!({"bin": b, "json": j})
}
/// deserialise `wire` as T from bincode (default and reject-trailing options) and from JSON; project with `f`
fn de<T: serde::de::DeserializeOwned>(bin: &[u8], js: &Value, f: impl Fn(&T) -> Value) -> Value {
    use bincode::Options;
    let a = bincode::deserialize::<T>(bin);
    let b = bincode::DefaultOptions::new().with_fixint_encoding().reject_trailing_bytes().deserialize::<T>(bin);
    let c = serde_json::from_value::<T>(js.clone());
    json!({"bin_ok": a.is_ok(), "bin": a.map(|v| f(&v)).unwrap_or(json!([])),
           "strict_ok": b.is_ok(), "strict": b.map(|v| f(&v)).unwrap_or(json!([])),
           "json_ok": c.is_ok(), "json": c.map(|v| f(&v)).unwrap_or(json!([]))})
}

pub fn run(op: &str, e: &Value, ctx: &mut Ctx) -> Result<Value, String> {
    match op {
        // ================= C15: total decoders ===========================================
        "tot.ed_nonspec_map" => {
            #[allow(deprecated)]
            let p = EdwardsPoint::nonspec_map_to_curve::<Sha512>(&bytes_of(inp(e, 0)?)?);
            ctx.set(&out_name(e)?, Reg::Ed(p));
            Ok(json!({"ok": true, "r": ops_edwards::ed_obs(&p)}))
        }
        "tot.vk_from_slice" => {
            let b = bytes_of(inp(e, 0)?)?;
            let r = VerifyingKey::try_from(&b[..]);
            Ok(json!({"ok": r.is_ok()}))
        }
        "tot.sig_from_slice" => {
            let b = bytes_of(inp(e, 0)?)?;
            let r = Signature::from_slice(&b);
            let r2 = Signature::try_from(&b[..]);
            Ok(json!({"ok": r.is_ok(), "ok2": r2.is_ok(), "bytes": r.map(|s| jbytes(&s.to_bytes())).unwrap_or(json!([]))}))
        }
        "tot.x_public" => {
            let b = arr32(inp(e, 0)?)?;
            let pk = x25519_dalek::PublicKey::from(b);
            Ok(json!({"bytes": jbytes(pk.as_bytes()), "to": jbytes(&pk.to_bytes())}))
        }
        // ================= C16: serde =====================================================
        "serde.roundtrip" => {
            // ty in {scalar, ed, ced, ris, cris, mont, sk, vk, sig, xpub, xstatic}; in[0] = the native bytes of a VALID value
            let ty = e["ty"].as_str().ok_or("ty")?;
            let b = bytes_of(inp(e, 0)?)?;
            let o = match ty {
                "scalar" => {
                    let v: Option<Scalar> = Scalar::from_canonical_bytes(arr32(inp(e, 0)?)?).into();
                    let v = v.ok_or("not canonical")?;
                    let s = ser(&v);
                    let d = de::<Scalar>(&bytes_of(&s["bin"])?, &s["json"], |x| jbytes(&x.to_bytes()));
                    json!({"ser": s, "de": d})
                }
                "ed" => {
                    let v = CompressedEdwardsY(arr32(inp(e, 0)?)?).decompress().ok_or("invalid point")?;
                    let s = ser(&v);
                    let d = de::<EdwardsPoint>(&bytes_of(&s["bin"])?, &s["json"], |x| jbytes(x.compress().as_bytes()));
                    json!({"ser": s, "de": d})
                }
                "ced" => {
                    let v = CompressedEdwardsY(arr32(inp(e, 0)?)?);
                    let s = ser(&v);
                    let d = de::<CompressedEdwardsY>(&bytes_of(&s["bin"])?, &s["json"], |x| jbytes(x.as_bytes()));
                    json!({"ser": s, "de": d})
                }
                "ris" => {
                    let v = CompressedRistretto(arr32(inp(e, 0)?)?).decompress().ok_or("invalid point")?;
                    let s = ser(&v);
                    let d = de::<RistrettoPoint>(&bytes_of(&s["bin"])?, &s["json"], |x| jbytes(x.compress().as_bytes()));
                    json!({"ser": s, "de": d})
                }
                "cris" => {
                    let v = CompressedRistretto(arr32(inp(e, 0)?)?);
                    let s = ser(&v);
                    let d = de::<CompressedRistretto>(&bytes_of(&s["bin"])?, &s["json"], |x| jbytes(x.as_bytes()));
                    json!({"ser": s, "de": d})
                }
                "mont" => {
                    let v = MontgomeryPoint(arr32(inp(e, 0)?)?);
                    let s = ser(&v);
                    let d = de::<MontgomeryPoint>(&bytes_of(&s["bin"])?, &s["json"], |x| jbytes(x.as_bytes()));
                    json!({"ser": s, "de": d})
                }
                "sk" => {
                    let v = SigningKey::from_bytes(&arr32(inp(e, 0)?)?);
                    let s = ser(&v);
                    let d = de::<SigningKey>(&bytes_of(&s["bin"])?, &s["json"], |x| jbytes(&x.to_bytes()));
                    json!({"ser": s, "de": d})
                }
                "vk" => {
                    let v = VerifyingKey::from_bytes(&arr32(inp(e, 0)?)?).map_err(|_| "invalid key")?;
                    let s = ser(&v);
                    let d = de::<VerifyingKey>(&bytes_of(&s["bin"])?, &s["json"], |x| jbytes(x.as_bytes()));
                    json!({"ser": s, "de": d})
                }
                "sig" => {
                    let v = Signature::from_bytes(&arr64(inp(e, 0)?)?);
                    let s = ser(&v);
                    let d = de::<Signature>(&bytes_of(&s["bin"])?, &s["json"], |x| jbytes(&x.to_bytes()));
                    json!({"ser": s, "de": d})
                }
                "xpub" => {
                    let v = x25519_dalek::PublicKey::from(arr32(inp(e, 0)?)?);
                    let s = ser(&v);
                    let d = de::<x25519_dalek::PublicKey>(&bytes_of(&s["bin"])?, &s["json"], |x| jbytes(x.as_bytes()));
                    json!({"ser": s, "de": d})
                }
                "xstatic" => {
                    let v = x25519_dalek::StaticSecret::from(arr32(inp(e, 0)?)?);
                    let s = ser(&v);
                    let d = de::<x25519_dalek::StaticSecret>(&bytes_of(&s["bin"])?, &s["json"], |x| jbytes(&x.to_bytes()));
                    json!({"ser": s, "de": d})
                }
                _ => return Err("ty".into()),
            };
            let _ = b;
            Ok(o)
        }
        // PKCS#8: a v2 document carries the public key next to the seed; decoding validates it like from_keypair_bytes does
        #[cfg(feature = "pkcs8")]
        "serde.pkcs8" => {
            use ed25519_dalek::pkcs8::{self, DecodePrivateKey, DecodePublicKey, EncodePrivateKey, EncodePublicKey};
            let seed = arr32(inp(e, 0)?)?;
            let pubb = arr32(inp(e, 1)?)?;
            let kp = pkcs8::KeypairBytes { secret_key: seed, public_key: Some(pkcs8::PublicKeyBytes(pubb)) };
            let ok_try = SigningKey::try_from(&kp).is_ok();
            let ok_der = match kp.to_pkcs8_der() {
                Ok(der) => SigningKey::from_pkcs8_der(der.as_bytes()).is_ok(),
                Err(_) => false,
            };
            let none = pkcs8::KeypairBytes { secret_key: seed, public_key: None };
            let none_ok = SigningKey::try_from(&none).map(|k| k.to_bytes() == seed).unwrap_or(false);
            // round trips of the library's own documents
            let sk = SigningKey::from_bytes(&seed);
            let rt = match sk.to_pkcs8_der() {
                Ok(der) => SigningKey::from_pkcs8_der(der.as_bytes()).map(|k| k.to_bytes() == seed).unwrap_or(false),
                Err(_) => false,
            };
            let vk = sk.verifying_key();
            let rt_pub = match vk.to_public_key_der() {
                Ok(der) => VerifyingKey::from_public_key_der(der.as_bytes()).map(|k| k.to_bytes() == vk.to_bytes()).unwrap_or(false),
                Err(_) => false,
            };
            // a SubjectPublicKeyInfo document with arbitrary key bytes: accepted exactly like VerifyingKey::from_bytes
            let spki_ok = match pkcs8::PublicKeyBytes(pubb).to_public_key_der() {
                Ok(der) => VerifyingKey::from_public_key_der(der.as_bytes()).is_ok(),
                Err(_) => false,
            };
            Ok(json!({"ok_try": ok_try, "ok_der": ok_der, "none_ok": none_ok, "rt": rt, "rt_pub": rt_pub, "spki_ok": spki_ok,
                      "native_ok": VerifyingKey::from_bytes(&pubb).is_ok(), "vk": jbytes(&vk.to_bytes())}))
        }
        "serde.de" => {
            // deserialise arbitrary wire data: in[0] = bincode bytes, "js" = JSON value
            let ty = e["ty"].as_str().ok_or("ty")?;
            let bin = bytes_of(inp(e, 0)?)?;
            let js = &e["js"];
            Ok(match ty {
                "scalar" => de::<Scalar>(&bin, js, |x| jbytes(&x.to_bytes())),
                "ed" => de::<EdwardsPoint>(&bin, js, |x| jbytes(x.compress().as_bytes())),
                "ced" => de::<CompressedEdwardsY>(&bin, js, |x| jbytes(x.as_bytes())),
                "ris" => de::<RistrettoPoint>(&bin, js, |x| jbytes(x.compress().as_bytes())),
                "cris" => de::<CompressedRistretto>(&bin, js, |x| jbytes(x.as_bytes())),
                "mont" => de::<MontgomeryPoint>(&bin, js, |x| jbytes(x.as_bytes())),
                "sk" => de::<SigningKey>(&bin, js, |x| jbytes(&x.to_bytes())),
                "vk" => de::<VerifyingKey>(&bin, js, |x| jbytes(x.as_bytes())),
                "sig" => de::<Signature>(&bin, js, |x| jbytes(&x.to_bytes())),
                "xpub" => de::<x25519_dalek::PublicKey>(&bin, js, |x| jbytes(x.as_bytes())),
                "xstatic" => de::<x25519_dalek::StaticSecret>(&bin, js, |x| jbytes(&x.to_bytes())),
                _ => return Err("ty".into()),
            })
        }
        // ================= C17: ff / group traits ==============================================
        #[cfg(feature = "group")]
        "ff.scalar" => {
            use ff::{Field, PrimeField};
            let a = sc_arg(ctx, inp(e, 0)?)?;
            let b = sc_arg(ctx, inp(e, 1)?)?;
            let sq: Option<Scalar> = a.sqrt().into();
            let inv: Option<Scalar> = Field::invert(&a).into();
            let (rc, rv) = Scalar::sqrt_ratio(&a, &b);
            Ok(json!({"a": jbytes(&a.to_bytes()), "b": jbytes(&b.to_bytes()),
                      "sqrt_ok": sq.is_some(), "sqrt": sq.map(|s| jbytes(&s.to_bytes())).unwrap_or(json!([])),
                      "inv_ok": inv.is_some(), "inv": inv.map(|s| jbytes(&s.to_bytes())).unwrap_or(json!([])),
                      "square": jbytes(&Field::square(&a).to_bytes()), "double": jbytes(&Field::double(&a).to_bytes()),
                      "is_odd": bool::from(a.is_odd()), "is_zero": bool::from(a.is_zero()),
                      "repr": jbytes(&a.to_repr()),
                      "ratio_ok": bool::from(rc), "ratio": jbytes(&rv.to_bytes())}))
        }
        #[cfg(feature = "group")]
        "ff.from_repr" => {
            use ff::PrimeField;
            let b = arr32(inp(e, 0)?)?;
            let r: Option<Scalar> = Scalar::from_repr(b).into();
            let v = Scalar::from_repr_vartime(b);
            Ok(json!({"ok": r.is_some(), "r": r.map(|s| jbytes(&s.to_bytes())).unwrap_or(json!([])), "vt_ok": v.is_some(),
                      "vt": v.map(|s| jbytes(&s.to_bytes())).unwrap_or(json!([]))}))
        }
        #[cfg(feature = "group")]
        "ff.constants" => {
            use ff::{Field, PrimeField};
            let hex = Scalar::MODULUS.trim_start_matches("0x");
            let mut mb = [0u8; 32];
            let hb: Vec<u8> = (0..hex.len() / 2).map(|i| u8::from_str_radix(&hex[2 * i..2 * i + 2], 16).unwrap_or(0)).collect();
            for (i, b) in hb.iter().rev().enumerate() {
                if i < 32 { mb[i] = *b; }
            }
            Ok(json!({"modulus": Scalar::MODULUS, "modulus_bytes": jbytes(&mb), "modulus_hex_len": hex.len(), "num_bits": Scalar::NUM_BITS, "capacity": Scalar::CAPACITY, "s": Scalar::S,
                      "two_inv": jbytes(&Scalar::TWO_INV.to_bytes()), "generator": jbytes(&Scalar::MULTIPLICATIVE_GENERATOR.to_bytes()),
                      "root": jbytes(&Scalar::ROOT_OF_UNITY.to_bytes()), "root_inv": jbytes(&Scalar::ROOT_OF_UNITY_INV.to_bytes()),
                      "delta": jbytes(&Scalar::DELTA.to_bytes()), "zero": jbytes(&<Scalar as Field>::ZERO.to_bytes()), "one": jbytes(&<Scalar as Field>::ONE.to_bytes())}))
        }
        #[cfg(feature = "group")]
        "grp.from_bytes" => {
            // every GroupEncoding impl on the same 32 bytes
            use curve25519_dalek::edwards::SubgroupPoint;
            use group::GroupEncoding;
            let b = arr32(inp(e, 0)?)?;
            let ed: Option<EdwardsPoint> = <EdwardsPoint as GroupEncoding>::from_bytes(&b).into();
            let edu: Option<EdwardsPoint> = <EdwardsPoint as GroupEncoding>::from_bytes_unchecked(&b).into();
            let sg: Option<SubgroupPoint> = <SubgroupPoint as GroupEncoding>::from_bytes(&b).into();
            let sgu: Option<SubgroupPoint> = <SubgroupPoint as GroupEncoding>::from_bytes_unchecked(&b).into();
            let rs: Option<RistrettoPoint> = <RistrettoPoint as GroupEncoding>::from_bytes(&b).into();
            let rsu: Option<RistrettoPoint> = <RistrettoPoint as GroupEncoding>::from_bytes_unchecked(&b).into();
            Ok(json!({"ed_ok": ed.is_some(), "ed": ed.map(|p| jbytes(&GroupEncoding::to_bytes(&p))).unwrap_or(json!([])),
                      "edu_ok": edu.is_some(),
                      "sg_ok": sg.is_some(), "sg": sg.map(|p| jbytes(&GroupEncoding::to_bytes(&p))).unwrap_or(json!([])),
                      "sgu_ok": sgu.is_some(),
                      "ris_ok": rs.is_some(), "ris": rs.map(|p| jbytes(&GroupEncoding::to_bytes(&p))).unwrap_or(json!([])),
                      "risu_ok": rsu.is_some()}))
        }
        #[cfg(feature = "group")]
        "grp.cofactor" => {
            use group::cofactor::CofactorGroup;
            use group::{Group, GroupEncoding};
            let p = ed_arg(ctx, inp(e, 0)?)?;
            let sub: Option<curve25519_dalek::edwards::SubgroupPoint> = p.into_subgroup().into();
            let cc = p.clear_cofactor();
            Ok(json!({"torsion_free": bool::from(CofactorGroup::is_torsion_free(&p)), "small_order": bool::from(p.is_small_order()),
                      "into_ok": sub.is_some(), "into": sub.map(|s| jbytes(&GroupEncoding::to_bytes(&s))).unwrap_or(json!([])),
                      "clear": jbytes(&GroupEncoding::to_bytes(&cc)),
                      "is_identity": bool::from(Group::is_identity(&p)), "double": jbytes(&GroupEncoding::to_bytes(&Group::double(&p))),
                      "gen": jbytes(&GroupEncoding::to_bytes(&<EdwardsPoint as Group>::generator())),
                      "id": jbytes(&GroupEncoding::to_bytes(&<EdwardsPoint as Group>::identity()))}))
        }
        #[cfg(feature = "group")]
        "grp.ris" => {
            use group::{Group, GroupEncoding};
            let p = ris_arg(ctx, inp(e, 0)?)?;
            Ok(json!({"is_identity": bool::from(Group::is_identity(&p)), "double": jbytes(&GroupEncoding::to_bytes(&Group::double(&p))),
                      "bytes": jbytes(&GroupEncoding::to_bytes(&p)),
                      "gen": jbytes(&GroupEncoding::to_bytes(&<RistrettoPoint as Group>::generator())),
                      "id": jbytes(&GroupEncoding::to_bytes(&<RistrettoPoint as Group>::identity()))}))
        }
        _ => Err(format!("unknown op {op}")),
    }
}
