//! C14: erasure of secret material.  A logging global allocator (harness side, no hook) records every block handed
//! back to the allocator together with a digest of its contents at that moment; an operation is run with the same public
//! inputs and three different secrets, and a freed block whose contents differ between the runs is tainted.
use crate::*;
use std::alloc::{GlobalAlloc, Layout, System};
use std::sync::atomic::{AtomicBool, AtomicUsize, Ordering};

#[derive(Copy, Clone)]
pub struct Rec {
    pub kind: u8, // 1 = alloc, 2 = dealloc
    pub size: usize,
    pub hash: u64,
    pub zero: bool,
}
const MAXREC: usize = 1 << 16;
static mut RECS: [Rec; MAXREC] = [Rec { kind: 0, size: 0, hash: 0, zero: false }; MAXREC];
static NREC: AtomicUsize = AtomicUsize::new(0);
static RECORDING: AtomicBool = AtomicBool::new(false);

pub struct LogAlloc;
unsafe impl GlobalAlloc for LogAlloc {
    unsafe fn alloc(&self, layout: Layout) -> *mut u8 {
        let p = System.alloc(layout);
        if RECORDING.load(Ordering::Relaxed) {
            let i = NREC.fetch_add(1, Ordering::Relaxed);
            if i < MAXREC {
                RECS[i] = Rec { kind: 1, size: layout.size(), hash: 0, zero: false };
            }
        }
        p
    }
    unsafe fn dealloc(&self, ptr: *mut u8, layout: Layout) {
        if RECORDING.load(Ordering::Relaxed) {
            // FNV-1a of the block's contents at the moment it is returned to the allocator
            let mut h: u64 = 0xcbf29ce484222325;
            let mut zero = true;
            for k in 0..layout.size() {
                let b = std::ptr::read_volatile(ptr.add(k));
                zero &= b == 0;
                h = (h ^ b as u64).wrapping_mul(0x100000001b3);
            }
            let i = NREC.fetch_add(1, Ordering::Relaxed);
            if i < MAXREC {
                RECS[i] = Rec { kind: 2, size: layout.size(), hash: h, zero };
            }
        }
        System.dealloc(ptr, layout)
    }
    // realloc: the trait's default (allocate, copy, free the old block with its contents) - the worst case for the property
}

fn record<R>(f: impl FnOnce() -> R) -> (R, Vec<Rec>) {
    NREC.store(0, Ordering::SeqCst);
    RECORDING.store(true, Ordering::SeqCst);
    let r = f();
    RECORDING.store(false, Ordering::SeqCst);
    let n = NREC.load(Ordering::SeqCst).min(MAXREC);
    let v = unsafe { (0..n).map(|i| RECS[i]).collect() };
    (r, v)
}

fn raw_bytes<T>(p: *const T) -> Vec<u8> {
    let n = std::mem::size_of::<T>();
    (0..n).map(|k| unsafe { std::ptr::read_volatile((p as *const u8).add(k)) }).collect()
}
/// place `v` in raw storage, use it, drop it in place; returns the storage bytes before the drop and after it
fn drop_probe<T>(v: T, use_it: impl FnOnce(&T)) -> (Vec<u8>, Vec<u8>) {
    let mut slot = std::mem::MaybeUninit::<T>::uninit();
    slot.write(v);
    use_it(unsafe { &*slot.as_ptr() });
    let before = raw_bytes(slot.as_ptr());
    unsafe { std::ptr::drop_in_place(slot.as_mut_ptr()) };
    let after = raw_bytes(slot.as_ptr());
    (before, after)
}

pub fn run(op: &str, e: &Value, ctx: &mut Ctx) -> Result<Value, String> {
    use curve25519_dalek::traits::MultiscalarMul;
    match op {
        "mem.run" => {
            // target in {ed.multiscalar_mul, ris.multiscalar_mul, sc.batch_invert}; "public": n scalars k_i (points k_i*B);
            // "secrets": three lists of n secret scalars
            let target = e["target"].as_str().ok_or("target")?;
            let publ: Vec<Scalar> = e["public"].as_array().ok_or("public")?.iter().map(|x| sc_arg(ctx, x)).collect::<Result<_, _>>()?;
            let pts: Vec<EdwardsPoint> = publ.iter().map(EdwardsPoint::mul_base).collect();
            let rpts: Vec<RistrettoPoint> = publ.iter().map(RistrettoPoint::mul_base).collect();
            let mut runs: Vec<Vec<Rec>> = Vec::new();
            let mut outs = Vec::new();
            for sv in e["secrets"].as_array().ok_or("secrets")? {
                let mut ss: Vec<Scalar> = sv.as_array().ok_or("secrets")?.iter().map(|x| sc_arg(ctx, x)).collect::<Result<_, _>>()?;
                let (r, recs) = match target {
                    "ed.multiscalar_mul" => record(|| EdwardsPoint::multiscalar_mul(ss.iter(), pts.iter()).compress().to_bytes()),
                    "ris.multiscalar_mul" => record(|| RistrettoPoint::multiscalar_mul(ss.iter(), rpts.iter()).compress().to_bytes()),
                    "sc.batch_invert" => record(|| Scalar::batch_invert(&mut ss).to_bytes()),
                    _ => return Err("target".into()),
                };
                runs.push(recs);
                outs.push(jbytes(&r));
            }
            let shape_same = runs.iter().all(|r| r.len() == runs[0].len() && r.iter().zip(runs[0].iter()).all(|(a, b)| a.kind == b.kind && a.size == b.size));
            let mut evs = Vec::new();
            if shape_same {
                for k in 0..runs[0].len() {
                    let a = runs[0][k];
                    let tainted = runs.iter().any(|r| r[k].hash != a.hash);
                    evs.push(json!({"k": if a.kind == 1 { "alloc" } else { "dealloc" }, "size": a.size, "tainted": tainted, "zero": runs.iter().all(|r| r[k].zero)}));
                }
            }
            Ok(json!({"shape_same": shape_same, "events": evs, "outs": outs, "runs": runs.len()}))
        }
        "mem.drop" => {
            // in[0]: the secret the object is built from; "alts": other secrets.  before / after: the object's storage before the drop
            // and after it, for in[0]; afters: the storage after the drop for in[0] and every alternative (erased = it no longer
            // depends on the secret); befores_differ: the storage did depend on the secret while the object lived (non-vacuity).
            let ty = e["ty"].as_str().ok_or("ty")?;
            let peer_bytes = if ty == "SharedSecret" { Some(arr32(inp(e, 1)?)?) } else { None };
            let probe = |a: [u8; 32]| -> Result<(Vec<u8>, Vec<u8>), String> { Ok(match ty {
                "SigningKey" => drop_probe(ed25519_dalek::SigningKey::from_bytes(&a), |k| {
                    use ed25519_dalek::Signer;
                    let _ = k.sign(b"use");
                }),
                "ExpandedSecretKey" => drop_probe(ed25519_dalek::hazmat::ExpandedSecretKey::from(&a), |k| {
                    let vk = ed25519_dalek::VerifyingKey::from(k);
                    let _ = ed25519_dalek::hazmat::raw_sign::<sha2::Sha512>(k, b"use", &vk);
                }),
                "StaticSecret" => drop_probe(x25519_dalek::StaticSecret::from(a), |k| {
                    let _ = x25519_dalek::PublicKey::from(k);
                }),
                "EphemeralSecret" => drop_probe(x25519_dalek::EphemeralSecret::random_from_rng(FixedRng(a.to_vec(), 0)), |k| {
                    let _ = x25519_dalek::PublicKey::from(k);
                }),
                "ReusableSecret" => drop_probe(x25519_dalek::ReusableSecret::random_from_rng(FixedRng(a.to_vec(), 0)), |k| {
                    let _ = x25519_dalek::PublicKey::from(k);
                }),
                "SharedSecret" => {
                    let peer = x25519_dalek::PublicKey::from(peer_bytes.unwrap());
                    drop_probe(x25519_dalek::StaticSecret::from(a).diffie_hellman(&peer), |s| {
                        let _ = s.was_contributory();
                    })
                }
                _ => return Err("ty".into()),
            }) };
            let (before, after) = probe(arr32(inp(e, 0)?)?)?;
            let mut afters = vec![jbytes(&after)];
            let mut befores_differ = false;
            if let Some(alts) = e["alts"].as_array() {
                for x in alts {
                    let (b2, a2) = probe(arr32(x)?)?;
                    befores_differ |= b2 != before;
                    afters.push(jbytes(&a2));
                }
            }
            Ok(json!({"before": jbytes(&before), "after": jbytes(&after), "afters": afters, "befores_differ": befores_differ}))
        }
        "mem.zeroize" => {
            // in = [secret, secret', ...]: the same type zeroized from DIFFERENT secret values.  r: the value of the first through the public
            // encoder; raws: each object's storage after zeroize().  Erased means: the documented value (r) and storage that no longer
            // depends on what the object held (an encoder can hide a surviving coordinate, e.g. T of a point).
            use zeroize::Zeroize;
            let ty = e["ty"].as_str().ok_or("ty")?;
            fn raw<T>(x: &T) -> Vec<u8> { unsafe { std::slice::from_raw_parts(x as *const T as *const u8, std::mem::size_of::<T>()) }.to_vec() }
            let mut r0: Option<Vec<u8>> = None;
            let mut raws = Vec::new();
            for k in 0..n_in(e) {
                let b = arr32(inp(e, k)?)?;
                let (r, rw) = match ty {
                    "Scalar" => { let mut s = Scalar::from_bytes_mod_order(b); s.zeroize(); (s.to_bytes().to_vec(), raw(&s)) }
                    "EdwardsPoint" => { let mut p = EdwardsPoint::mul_base(&Scalar::from_bytes_mod_order(b)); p.zeroize(); (p.compress().to_bytes().to_vec(), raw(&p)) }
                    "CompressedEdwardsY" => { let mut p = curve25519_dalek::edwards::CompressedEdwardsY(b); p.zeroize(); (p.to_bytes().to_vec(), raw(&p)) }
                    "RistrettoPoint" => { let mut p = RistrettoPoint::mul_base(&Scalar::from_bytes_mod_order(b)); p.zeroize(); (p.compress().to_bytes().to_vec(), raw(&p)) }
                    "CompressedRistretto" => { let mut p = curve25519_dalek::ristretto::CompressedRistretto(b); p.zeroize(); (p.to_bytes().to_vec(), raw(&p)) }
                    "MontgomeryPoint" => { let mut p = MontgomeryPoint(b); p.zeroize(); (p.to_bytes().to_vec(), raw(&p)) }
                    "StaticSecret" => { let mut s = x25519_dalek::StaticSecret::from(b); s.zeroize(); (s.to_bytes().to_vec(), raw(&s)) }
                    _ => return Err("ty".into()),
                };
                if r0.is_none() { r0 = Some(r.clone()); } else if r0.as_ref() != Some(&r) { raws.push(vec![0xEE]); }
                raws.push(rw);
            }
            Ok(json!({"r": jbytes(&r0.unwrap_or_default()), "raws": raws.iter().map(|x| jbytes(x)).collect::<Vec<_>>()}))
        }
        _ => Err(format!("unknown op {op}")),
    }
}

struct FixedRng(Vec<u8>, usize);
impl rand_core::RngCore for FixedRng {
    fn next_u32(&mut self) -> u32 { let mut b = [0u8; 4]; self.fill_bytes(&mut b); u32::from_le_bytes(b) }
    fn next_u64(&mut self) -> u64 { let mut b = [0u8; 8]; self.fill_bytes(&mut b); u64::from_le_bytes(b) }
    fn fill_bytes(&mut self, dest: &mut [u8]) { for d in dest.iter_mut() { *d = self.0[self.1 % self.0.len()]; self.1 += 1; } }
    fn try_fill_bytes(&mut self, dest: &mut [u8]) -> Result<(), rand_core::Error> { self.fill_bytes(dest); Ok(()) }
}
impl rand_core::CryptoRng for FixedRng {}
