//! Vector-backend internals through the hook (C01 lanes, C11 bounds, C12 vector tables) and constants (C12).
use crate::*;
use std::rc::Rc;

#[derive(Clone)]
pub enum VV {
    #[cfg(feature = "simd")]
    A(hook::avx2::V),
    #[cfg(feature = "avx512")]
    I(hook::ifma::V),
    #[allow(dead_code)]
    Never,
}

fn lanes_obs(l: &[Fe; 4]) -> Value {
    Value::Array(l.iter().map(fe_obs).collect())
}
impl VV {
    fn split(&self) -> [Fe; 4] {
        match self {
            #[cfg(feature = "simd")]
            VV::A(v) => v.split(),
            #[cfg(feature = "avx512")]
            VV::I(v) => v.split(),
            VV::Never => unreachable!(),
        }
    }
    /// largest raw lane value per limb class (even limbs, odd limbs) for AVX2; (max limb, 0) for IFMA
    fn maxraw(&self) -> (u64, u64) {
        match self {
            #[cfg(feature = "simd")]
            VV::A(v) => {
                let r = v.raw();
                let mut e = 0u64;
                let mut o = 0u64;
                for i in 0..5 {
                    for (j, x) in r[i].iter().enumerate() {
                        // lanes 0,1,4,5 hold even limbs (26 bits), 2,3,6,7 odd limbs (25 bits)
                        if j % 4 < 2 { e = e.max(*x as u64) } else { o = o.max(*x as u64) }
                    }
                }
                (e, o)
            }
            #[cfg(feature = "avx512")]
            VV::I(v) => {
                let mut m = 0u64;
                for f in v.split().iter() {
                    for x in f.limbs()[..5].iter() { m = m.max(*x) }
                }
                (m, 0)
            }
            VV::Never => unreachable!(),
        }
    }
}
fn vv_arg(ctx: &Ctx, v: &Value) -> Result<VV, String> {
    match ctx.get(v.as_str().ok_or("vector register expected")?)? {
        Reg::Any(a) => a.downcast_ref::<VV>().cloned().ok_or_else(|| "not a vector".to_string()),
        _ => Err("not a vector register".into()),
    }
}
fn set_vv(ctx: &mut Ctx, e: &Value, ins: Vec<VV>, r: VV) -> Result<Value, String> {
    let (me, mo) = r.maxraw();
    let vkind = match &r { #[cfg(feature = "simd")] VV::A(_) => "avx2", #[cfg(feature = "avx512")] VV::I(_) => "ifma", VV::Never => "" };
    let o = json!({"vkind": vkind, "ins": ins.iter().map(|v| lanes_obs(&v.split())).collect::<Vec<_>>(), "r": lanes_obs(&r.split()), "max_even": jbytes(&me.to_le_bytes()), "max_odd": jbytes(&mo.to_le_bytes()),
                   "in_max": ins.iter().map(|v| { let (a, b) = v.maxraw(); json!([jbytes(&a.to_le_bytes()), jbytes(&b.to_le_bytes())]) }).collect::<Vec<_>>()});
    ctx.set(&out_name(e)?, Reg::Any(Rc::new(r)));
    Ok(o)
}

#[allow(unused_variables, unreachable_code)]
pub fn run(op: &str, e: &Value, ctx: &mut Ctx) -> Result<Value, String> {
    let kind = e["kind"].as_str().unwrap_or("");
    match op {
        "vec.available" => Ok(json!({"avx2": cfg!(feature = "simd") && std::is_x86_feature_detected!("avx2"),
                                     "ifma": cfg!(feature = "avx512") && std::is_x86_feature_detected!("avx512ifma") && std::is_x86_feature_detected!("avx512vl")})),
        "vec.new" => {
            let l = [fe_arg(ctx, inp(e, 0)?)?, fe_arg(ctx, inp(e, 1)?)?, fe_arg(ctx, inp(e, 2)?)?, fe_arg(ctx, inp(e, 3)?)?];
            let r = match kind {
                #[cfg(feature = "simd")]
                "avx2" => VV::A(hook::avx2::V::new(&l)),
                #[cfg(feature = "avx512")]
                "ifma" => VV::I(hook::ifma::V::new(&l)),
                _ => return Err("vector kind not compiled".into()),
            };
            let mut o = set_vv(ctx, e, vec![], r)?;
            o["lanes_in"] = Value::Array(l.iter().map(fe_limbs).collect());
            Ok(o)
        }
        #[cfg(feature = "simd")]
        "vec.from_raw" => {
            // AVX2 only: "lanes": four lanes of ten 32-bit limbs each (each limb as little-endian bytes)
            let l = e["lanes"].as_array().ok_or("lanes")?;
            let lv: Vec<Vec<u64>> = l.iter().map(|x| limbs_of(x)).collect::<Result<_, _>>()?;
            let g = |a: usize, k: usize| lv[a][k] as u32;
            let mut r = [[0u32; 8]; 5];
            for i in 0..5 {
                r[i] = [g(0, 2 * i), g(1, 2 * i), g(0, 2 * i + 1), g(1, 2 * i + 1), g(2, 2 * i), g(3, 2 * i), g(2, 2 * i + 1), g(3, 2 * i + 1)];
            }
            let v = VV::A(hook::avx2::V::from_raw(&r));
            set_vv(ctx, e, vec![], v)
        }
        "vec.op1" => {
            let a = vv_arg(ctx, inp(e, 0)?)?;
            let name = e["f"].as_str().ok_or("f")?;
            let arg = e["arg"].as_str().unwrap_or("");
            let r = match &a {
                #[cfg(feature = "simd")]
                VV::A(v) => VV::A(v.op1(name, arg)),
                #[cfg(feature = "avx512")]
                VV::I(v) => VV::I(v.op1(name, arg)),
                VV::Never => unreachable!(),
            };
            set_vv(ctx, e, vec![a], r)
        }
        "vec.op2" => {
            let a = vv_arg(ctx, inp(e, 0)?)?;
            let b = vv_arg(ctx, inp(e, 1)?)?;
            let name = e["f"].as_str().ok_or("f")?;
            let arg = e["arg"].as_str().unwrap_or("");
            let r = match (&a, &b) {
                #[cfg(feature = "simd")]
                (VV::A(x), VV::A(y)) => VV::A(x.op2(y, name, arg)),
                #[cfg(feature = "avx512")]
                (VV::I(x), VV::I(y)) => VV::I(x.op2(y, name, arg)),
                _ => return Err("mixed vector kinds".into()),
            };
            set_vv(ctx, e, vec![a, b], r)
        }
        "vec.mul_consts" => {
            let a = vv_arg(ctx, inp(e, 0)?)?;
            let c: Vec<u32> = e["c"].as_array().ok_or("c")?.iter().map(|x| x.as_u64().unwrap_or(0) as u32).collect();
            let c = (c[0], c[1], c[2], c[3]);
            let r = match &a {
                #[cfg(feature = "simd")]
                VV::A(v) => VV::A(v.mul_consts(c)),
                #[cfg(feature = "avx512")]
                VV::I(v) => VV::I(v.mul_consts(c)),
                VV::Never => unreachable!(),
            };
            set_vv(ctx, e, vec![a], r)
        }
        "vec.point" => {
            let p = ed_arg(ctx, inp(e, 0)?)?;
            let q = ed_arg(ctx, inp(e, 1)?)?;
            let f = e["f"].as_str().ok_or("f")?;
            let k = e["k"].as_u64().unwrap_or(1) as u32;
            let r = match kind {
                #[cfg(feature = "simd")]
                "avx2" => hook::avx2::point_op(f, &p, &q, k),
                #[cfg(feature = "avx512")]
                "ifma" => hook::ifma::point_op(f, &p, &q, k),
                _ => return Err("vector kind not compiled".into()),
            };
            ctx.set(&out_name(e)?, Reg::Ed(r));
            Ok(json!({"ok": true, "r": ops_edwards::ed_obs(&r)}))
        }
        "vec.cached" => {
            let q = ed_arg(ctx, inp(e, 0)?)?;
            let l = match kind {
                #[cfg(feature = "simd")]
                "avx2" => hook::avx2::cached_lanes(&q),
                #[cfg(feature = "avx512")]
                "ifma" => hook::ifma::cached_lanes(&q),
                _ => return Err("vector kind not compiled".into()),
            };
            Ok(json!({"lanes": lanes_obs(&l)}))
        }
        // ---------------- group formulas on boundary representations (C11) ----------------
        "chk.formulas" => {
            // in = 8 field elements (raw limbs): coordinates X Y Z T of two "points" whose limbs sit at the type
            // invariant's bound.  The values need not be on the curve: only overflow checks, debug assertions and
            // lane-bound monitors are of interest, so nothing but the panic field of this event is judged.
            use curve25519_dalek::traits::{Identity, MultiscalarMul, VartimeMultiscalarMul};
            let mut c = Vec::new();
            for i in 0..8 {
                c.push(fe_arg(ctx, inp(e, i)?)?);
            }
            let p = hook::edwards_from_coords(&[c[0], c[1], c[2], c[3]]);
            let q = hook::edwards_from_coords(&[c[4], c[5], c[6], c[7]]);
            let s = Scalar::from_bytes_mod_order(arr32(&e["s"])?);
            let mut acc = EdwardsPoint::identity();
            acc += &p + &q;
            acc += &p - &q;
            acc += -&p;
            acc += hook::edwards_double(&p);
            acc += p.mul_by_cofactor();
            acc += &p * &s;
            acc += EdwardsPoint::vartime_double_scalar_mul_basepoint(&s, &q, &s);
            acc += EdwardsPoint::multiscalar_mul([s, s].iter(), [p, q].iter());
            acc += EdwardsPoint::vartime_multiscalar_mul([s, s].iter(), [p, q].iter());
            let _ = p.compress();
            let _ = p.to_montgomery();
            let _ = p == q;
            let _ = p.is_small_order();
            let r = hook::ristretto_from_edwards(&p);
            let _ = r.compress();
            let _ = r == hook::ristretto_from_edwards(&q);
            let _ = RistrettoPoint::double_and_compress_batch([r, hook::ristretto_from_edwards(&q)].iter());
            #[cfg(feature = "simd")]
            if std::is_x86_feature_detected!("avx2") {
                for f in ["roundtrip", "double", "add", "sub", "add_neg", "pow2"] {
                    acc += hook::avx2::point_op(f, &p, &q, 3);
                }
            }
            #[cfg(feature = "avx512")]
            if std::is_x86_feature_detected!("avx512ifma") {
                for f in ["roundtrip", "double", "add", "sub", "add_neg", "pow2"] {
                    acc += hook::ifma::point_op(f, &p, &q, 3);
                }
            }
            Ok(json!({"done": true, "acc": jbytes(acc.compress().as_bytes())}))
        }
        // ---------------- constants and raw table entries (C12) ----------------
        "const.dump" => {
            let v: Vec<Value> = hook::constants().iter().map(|c| json!({"name": c.name, "kind": c.kind, "limbs": jlimbs(&c.limbs), "bytes": jbytes(&c.bytes)})).collect();
            Ok(json!({"consts": v, "nlimbs": hook::NLIMBS}))
        }
        #[cfg(feature = "tables")]
        "const.table_entry" => {
            let t = hook::basepoint_table_entry(uint(e, "ti")? as usize, uint(e, "tj")? as usize);
            Ok(json!({"e": [fe_obs(&t[0]), fe_obs(&t[1]), fe_obs(&t[2])]}))
        }
        #[cfg(feature = "tables")]
        "const.odd_entry" => {
            let t = hook::affine_odd_multiples_entry(uint(e, "k")? as usize);
            Ok(json!({"e": [fe_obs(&t[0]), fe_obs(&t[1]), fe_obs(&t[2])]}))
        }
        #[cfg(feature = "tables")]
        "const.vec_odd_entry" => {
            let k = uint(e, "k")? as usize;
            let l = match kind {
                #[cfg(feature = "simd")]
                "avx2" => hook::avx2::odd_table_entry(k),
                #[cfg(feature = "avx512")]
                "ifma" => hook::ifma::odd_table_entry(k),
                _ => return Err("vector kind not compiled".into()),
            };
            Ok(json!({"lanes": lanes_obs(&l)}))
        }
        #[cfg(feature = "ed")]
        "const.public" => {
            use curve25519_dalek::constants as k;
            let tors: Vec<Value> = k::EIGHT_TORSION.iter().map(ops_edwards::ed_obs).collect();
            Ok(json!({
                "ED25519_BASEPOINT_COMPRESSED": jbytes(k::ED25519_BASEPOINT_COMPRESSED.as_bytes()),
                "ED25519_BASEPOINT_POINT": ops_edwards::ed_obs(&k::ED25519_BASEPOINT_POINT),
                "X25519_BASEPOINT": jbytes(k::X25519_BASEPOINT.as_bytes()),
                "RISTRETTO_BASEPOINT_COMPRESSED": jbytes(k::RISTRETTO_BASEPOINT_COMPRESSED.as_bytes()),
                "RISTRETTO_BASEPOINT_POINT": jbytes(k::RISTRETTO_BASEPOINT_POINT.compress().as_bytes()),
                "BASEPOINT_ORDER": jbytes(&k::BASEPOINT_ORDER.to_bytes()),
                "EIGHT_TORSION": tors,
                "X25519_BASEPOINT_BYTES": jbytes(&x25519_dalek::X25519_BASEPOINT_BYTES),
                "SCALAR_ZERO": jbytes(&Scalar::ZERO.to_bytes()),
                "SCALAR_ONE": jbytes(&Scalar::ONE.to_bytes()),
            }))
        }
        _ => Err(format!("unknown op {op}")),
    }
}
