//! Field operations through the guarded hook module (C01, C11).
use crate::*;

pub fn run(op: &str, e: &Value, ctx: &mut Ctx) -> Result<Value, String> {
    match op {
        // constructors ----------------------------------------------------------
        "fe.from_limbs" | "fe.from_bytes" => {
            let f = if op == "fe.from_limbs" {
                Fe::from_limbs(&limbs_of(inp(e, 0)?)?)
            } else {
                Fe::from_bytes(&arr32(inp(e, 0)?)?)
            };
            ctx.set(&out_name(e)?, Reg::Fe(f));
            Ok(json!({"r": fe_obs(&f)}))
        }
        // binary ----------------------------------------------------------------
        "fe.add" | "fe.sub" | "fe.mul" | "fe.add_assign" | "fe.sub_assign" | "fe.mul_assign" => {
            let a = fe_arg(ctx, inp(e, 0)?)?;
            let b = fe_arg(ctx, inp(e, 1)?)?;
            let r = match op {
                "fe.add" => a.add(&b),
                "fe.sub" => a.sub(&b),
                "fe.mul" => a.mul(&b),
                "fe.add_assign" => { let mut t = a; t.add_assign(&b); t }
                "fe.sub_assign" => { let mut t = a; t.sub_assign(&b); t }
                _ => { let mut t = a; t.mul_assign(&b); t }
            };
            ctx.set(&out_name(e)?, Reg::Fe(r));
            Ok(json!({"a": fe_limbs(&a), "b": fe_limbs(&b), "r": fe_obs(&r)}))
        }
        // unary -----------------------------------------------------------------
        "fe.neg" | "fe.negate" | "fe.square" | "fe.square2" | "fe.invert" | "fe.pow_p58" | "fe.pow2k" | "fe.reencode" => {
            let a = fe_arg(ctx, inp(e, 0)?)?;
            let r = match op {
                "fe.neg" => a.neg(),
                "fe.negate" => { let mut t = a; t.negate(); t }
                "fe.square" => a.square(),
                "fe.square2" => a.square2(),
                "fe.invert" => a.invert(),
                "fe.pow_p58" => a.pow_p58(),
                "fe.reencode" => Fe::from_bytes(&a.as_bytes()),
                _ => a.pow2k(uint(e, "k")? as u32),
            };
            ctx.set(&out_name(e)?, Reg::Fe(r));
            Ok(json!({"a": fe_limbs(&a), "r": fe_obs(&r)}))
        }
        "fe.pow22501" => {
            let a = fe_arg(ctx, inp(e, 0)?)?;
            let (r, s) = a.pow22501();
            let o = out_names(e)?;
            ctx.set(&o[0], Reg::Fe(r));
            ctx.set(&o[1], Reg::Fe(s));
            Ok(json!({"a": fe_limbs(&a), "r": fe_obs(&r), "s": fe_obs(&s)}))
        }
        "fe.invsqrt" => {
            let a = fe_arg(ctx, inp(e, 0)?)?;
            let (ok, r) = a.invsqrt();
            ctx.set(&out_name(e)?, Reg::Fe(r));
            Ok(json!({"a": fe_limbs(&a), "ok": ok, "r": fe_obs(&r)}))
        }
        "fe.sqrt_ratio_i" => {
            let a = fe_arg(ctx, inp(e, 0)?)?;
            let b = fe_arg(ctx, inp(e, 1)?)?;
            let (ok, r) = Fe::sqrt_ratio_i(&a, &b);
            ctx.set(&out_name(e)?, Reg::Fe(r));
            Ok(json!({"a": fe_limbs(&a), "b": fe_limbs(&b), "ok": ok, "r": fe_obs(&r)}))
        }
        "fe.batch_invert" => {
            let n = n_in(e);
            let mut v = Vec::new();
            for i in 0..n {
                v.push(fe_arg(ctx, inp(e, i)?)?);
            }
            let ins: Vec<Value> = v.iter().map(fe_limbs).collect();
            Fe::batch_invert(&mut v);
            let outs = out_names(e)?;
            for (i, o) in outs.iter().enumerate() {
                ctx.set(o, Reg::Fe(v[i]));
            }
            Ok(json!({"as": ins, "rs": v.iter().map(fe_obs).collect::<Vec<_>>()}))
        }
        // predicates ------------------------------------------------------------
        "fe.is_negative" | "fe.is_zero" => {
            let a = fe_arg(ctx, inp(e, 0)?)?;
            let r = if op == "fe.is_negative" { a.is_negative() } else { a.is_zero() };
            Ok(json!({"a": fe_limbs(&a), "ok": r}))
        }
        "fe.ct_eq" => {
            let a = fe_arg(ctx, inp(e, 0)?)?;
            let b = fe_arg(ctx, inp(e, 1)?)?;
            Ok(json!({"a": fe_limbs(&a), "b": fe_limbs(&b), "ok": a.ct_eq(&b)}))
        }
        // conditional family ----------------------------------------------------
        "fe.cond_select" | "fe.cond_assign" => {
            let a = fe_arg(ctx, inp(e, 0)?)?;
            let b = fe_arg(ctx, inp(e, 1)?)?;
            let c = flag(e, "c")?;
            let r = if op == "fe.cond_select" {
                Fe::conditional_select(&a, &b, c)
            } else {
                let mut t = a;
                t.conditional_assign(&b, c);
                t
            };
            ctx.set(&out_name(e)?, Reg::Fe(r));
            Ok(json!({"a": fe_limbs(&a), "b": fe_limbs(&b), "r": fe_obs(&r)}))
        }
        "fe.cond_swap" => {
            let mut a = fe_arg(ctx, inp(e, 0)?)?;
            let mut b = fe_arg(ctx, inp(e, 1)?)?;
            let (a0, b0) = (a, b);
            Fe::conditional_swap(&mut a, &mut b, flag(e, "c")?);
            let o = out_names(e)?;
            ctx.set(&o[0], Reg::Fe(a));
            ctx.set(&o[1], Reg::Fe(b));
            Ok(json!({"a": fe_limbs(&a0), "b": fe_limbs(&b0), "r": fe_obs(&a), "s": fe_obs(&b)}))
        }
        "fe.cond_negate" => {
            let a = fe_arg(ctx, inp(e, 0)?)?;
            let mut r = a;
            r.conditional_negate(flag(e, "c")?);
            ctx.set(&out_name(e)?, Reg::Fe(r));
            Ok(json!({"a": fe_limbs(&a), "r": fe_obs(&r)}))
        }
        _ => Err(format!("unknown op {op}")),
    }
}
