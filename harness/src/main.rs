//! Conformance driver: executes a script (NDJSON, one op per line) against the real
//! curve25519-dalek / ed25519-dalek / x25519-dalek built from /repo's working tree and
//! writes one event per op (NDJSON) for TLC trace validation.
//!
//! usage: driver <cfg-id> <script.ndjson> <trace.ndjson>
//!
//! A panic inside code under test is data (the event's "panic" field), never a
//! harness failure.

#![allow(clippy::needless_range_loop)]

use serde_json::{json, Map, Value};
use std::collections::HashMap;
use std::io::{BufRead, BufWriter, Write};
use std::panic::{catch_unwind, AssertUnwindSafe};

mod util;
use util::*;
mod ops_field;
mod ops_scalar;
mod ops_edwards;
mod ops_misc;
mod ops_vec;
#[cfg(feature = "ed")]
mod ops_more;
#[cfg(feature = "zeroize")]
mod ops_mem;
mod ops_ct;

#[cfg(feature = "zeroize")]
#[global_allocator]
static GLOBAL: ops_mem::LogAlloc = ops_mem::LogAlloc;

pub use curve25519_dalek::edwards::EdwardsPoint;
pub use curve25519_dalek::montgomery::MontgomeryPoint;
pub use curve25519_dalek::ristretto::RistrettoPoint;
pub use curve25519_dalek::scalar::Scalar;
pub use curve25519_dalek::verif as hook;
pub use curve25519_dalek::verif::Fe;

/// A typed register.
#[derive(Clone)]
pub enum Reg {
    None,
    Bytes(Vec<u8>),
    Fe(Fe),
    Sc(Scalar),
    Ed(EdwardsPoint),
    Ris(RistrettoPoint),
    Mont(MontgomeryPoint),
    Any(std::rc::Rc<dyn std::any::Any>),
}

pub struct Ctx {
    pub regs: HashMap<String, Reg>,
    pub cfg: String,
}

impl Ctx {
    pub fn get(&self, name: &str) -> Result<&Reg, String> {
        self.regs
            .get(name)
            .ok_or_else(|| format!("unknown register {name}"))
    }
    pub fn set(&mut self, name: &str, r: Reg) {
        self.regs.insert(name.to_string(), r);
    }
}

fn dispatch(op: &str, e: &Value, ctx: &mut Ctx) -> Result<Value, String> {
    let dom = op.split('.').next().unwrap_or("");
    match dom {
        "fe" => ops_field::run(op, e, ctx),
        "sc" => ops_scalar::run(op, e, ctx),
        "ed" => ops_edwards::run(op, e, ctx),
        "vec" | "const" | "chk" => ops_vec::run(op, e, ctx),
        #[cfg(feature = "ed")]
        "tot" | "serde" | "ff" | "grp" => ops_more::run(op, e, ctx),
        #[cfg(feature = "zeroize")]
        "mem" => ops_mem::run(op, e, ctx),
        "ct" => ops_ct::run(op, e, ctx),
        _ => ops_misc::run(op, e, ctx),
    }
}

fn main() {
    let args: Vec<String> = std::env::args().collect();
    if args.len() != 4 {
        eprintln!("usage: driver <cfg-id> <script.ndjson> <trace.ndjson>");
        std::process::exit(2);
    }
    // silence the default panic message; panics are recorded in the trace
    std::panic::set_hook(Box::new(|_| {}));
    let cfg = args[1].clone();
    let script = std::fs::File::open(&args[2]).expect("open script");
    let mut out = BufWriter::new(std::fs::File::create(&args[3]).expect("create trace"));
    let mut ctx = Ctx {
        regs: HashMap::new(),
        cfg: cfg.clone(),
    };
    let mut i = 0u64;
    for line in std::io::BufReader::new(script).lines() {
        let line = line.expect("read");
        if line.trim().is_empty() {
            continue;
        }
        let e: Value = serde_json::from_str(&line).expect("script json");
        let op = e["op"].as_str().expect("op").to_string();
        i += 1;
        let res = catch_unwind(AssertUnwindSafe(|| dispatch(&op, &e, &mut ctx)));
        let mut ev = Map::new();
        ev.insert("i".into(), json!(i));
        ev.insert("cfg".into(), json!(cfg));
        // copy the script line (op, in, out, params) into the event
        if let Value::Object(m) = &e {
            for (k, v) in m {
                ev.insert(k.clone(), v.clone());
            }
        }
        match res {
            Ok(Ok(obs)) => {
                ev.insert("obs".into(), obs);
                ev.insert("panic".into(), json!(""));
            }
            Ok(Err(msg)) if msg.starts_with("register ") && msg.contains(" is not ") => {
                // an operand register holds nothing because an EARLIER call of the library returned None where the script (written for
                // the specified behaviour) expected a value: that is data about the code under test, not a script error.  The event
                // is recorded as "dangling" (the specification reports it) and the output register, if any, is left empty.
                ev.insert("orig_op".into(), json!(op));
                ev.insert("op".into(), json!("dangling"));
                ev.insert("obs".into(), json!({"msg": msg}));
                ev.insert("panic".into(), json!(""));
                if let Some(o) = e.get("out").and_then(|x| x.as_str()) {
                    ctx.set(o, Reg::None);
                }
            }
            Ok(Err(msg)) => {
                eprintln!("driver: script error at line {i} ({op}): {msg}");
                std::process::exit(2);
            }
            Err(p) => {
                let msg = if let Some(s) = p.downcast_ref::<&str>() {
                    s.to_string()
                } else if let Some(s) = p.downcast_ref::<String>() {
                    s.clone()
                } else {
                    "panic".to_string()
                };
                ev.insert("obs".into(), json!({}));
                ev.insert(
                    "panic".into(),
                    json!(if msg.is_empty() { "panic".to_string() } else { msg }),
                );
                // registers named as outputs become None
                match &e["out"] {
                    Value::String(s) => ctx.set(s, Reg::None),
                    Value::Array(a) => {
                        for s in a {
                            if let Some(s) = s.as_str() {
                                ctx.set(s, Reg::None)
                            }
                        }
                    }
                    _ => {}
                }
            }
        }
        // which implementation served the call (0 = dispatcher not consulted)
        ev.insert("backend".into(), json!(hook::last_backend()));
        serde_json::to_writer(&mut out, &Value::Object(ev)).expect("write");
        out.write_all(b"\n").expect("write");
    }
    out.flush().expect("flush");
}
