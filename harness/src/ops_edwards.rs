//! Edwards point operations (C03) and every scalar-multiplication entry point (C04).
use crate::*;
use curve25519_dalek::constants;
use curve25519_dalek::edwards::CompressedEdwardsY;
use curve25519_dalek::traits::{Identity, IsIdentity, MultiscalarMul, VartimeMultiscalarMul, VartimePrecomputedMultiscalarMul};
#[cfg(feature = "tables")]
use curve25519_dalek::traits::BasepointTable;
use subtle::{Choice, ConditionallySelectable, ConstantTimeEq};

/// Observation of a point: compressed bytes and the canonical bytes of (X, Y, Z, T).
pub fn ed_obs(p: &EdwardsPoint) -> Value {
    let c = hook::edwards_coords(p);
    json!({"c": jbytes(p.compress().as_bytes()),
           "xyzt": [jbytes(&c[0].as_bytes()), jbytes(&c[1].as_bytes()), jbytes(&c[2].as_bytes()), jbytes(&c[3].as_bytes())]})
}
fn set_ed(ctx: &mut Ctx, e: &Value, p: EdwardsPoint) -> Result<Value, String> {
    ctx.set(&out_name(e)?, Reg::Ed(p));
    Ok(json!({"ok": true, "r": ed_obs(&p)}))
}
fn set_opt(ctx: &mut Ctx, e: &Value, p: Option<EdwardsPoint>) -> Result<Value, String> {
    match p {
        Some(p) => set_ed(ctx, e, p),
        None => {
            ctx.set(&out_name(e)?, Reg::None);
            Ok(json!({"ok": false}))
        }
    }
}
fn scalars_of(ctx: &Ctx, v: &Value) -> Result<Vec<Scalar>, String> {
    v.as_array().ok_or("scalars: array expected")?.iter().map(|x| sc_arg(ctx, x)).collect()
}
fn points_of(ctx: &Ctx, v: &Value) -> Result<Vec<EdwardsPoint>, String> {
    v.as_array().ok_or("points: array expected")?.iter().map(|x| ed_arg(ctx, x)).collect()
}
fn opt_points_of(ctx: &Ctx, v: &Value) -> Result<Vec<Option<EdwardsPoint>>, String> {
    v.as_array().ok_or("points: array expected")?.iter().map(|x| ed_opt_arg(ctx, x)).collect()
}
fn sc_bytes(v: &[Scalar]) -> Value {
    Value::Array(v.iter().map(|s| jbytes(&s.to_bytes())).collect())
}

pub fn run(op: &str, e: &Value, ctx: &mut Ctx) -> Result<Value, String> {
    match op {
        // ---- constructors ----------------------------------------------------------
        "ed.decompress" => {
            let b = arr32(inp(e, 0)?)?;
            set_opt(ctx, e, CompressedEdwardsY(b).decompress())
        }
        "ed.from_slice" => {
            // CompressedEdwardsY::from_slice / TryFrom<&[u8]> then decompress; any length
            let b = bytes_of(inp(e, 0)?)?;
            let a = CompressedEdwardsY::from_slice(&b);
            let t = CompressedEdwardsY::try_from(&b[..]);
            if a.is_ok() != t.is_ok() {
                panic!("from_slice and TryFrom disagree");
            }
            match a {
                Ok(c) => {
                    let p = c.decompress();
                    let ok = p.is_some();
                    ctx.set(&out_name(e)?, p.map(Reg::Ed).unwrap_or(Reg::None));
                    Ok(json!({"len_ok": true, "ok": ok, "r": p.map(|p| ed_obs(&p)).unwrap_or(json!({}))}))
                }
                Err(_) => {
                    ctx.set(&out_name(e)?, Reg::None);
                    Ok(json!({"len_ok": false, "ok": false}))
                }
            }
        }
        "ed.basepoint" => set_ed(ctx, e, constants::ED25519_BASEPOINT_POINT),
        "ed.identity" => set_ed(ctx, e, EdwardsPoint::identity()),
        "ed.default" => set_ed(ctx, e, EdwardsPoint::default()),
        "ed.torsion" => set_ed(ctx, e, constants::EIGHT_TORSION[uint(e, "k")? as usize % 8]),
        "ed.compressed_identity" => {
            let a = CompressedEdwardsY::identity();
            let b = CompressedEdwardsY::default();
            Ok(json!({"a": jbytes(a.as_bytes()), "b": jbytes(b.as_bytes())}))
        }
        // ---- group operations ---------------------------------------------------------
        "ed.add" | "ed.sub" | "ed.add_assign" | "ed.sub_assign" | "ed.add_owned" | "ed.sub_owned" => {
            let a = ed_arg(ctx, inp(e, 0)?)?;
            let b = ed_arg(ctx, inp(e, 1)?)?;
            let r = match op {
                "ed.add" => &a + &b,
                "ed.sub" => &a - &b,
                "ed.add_owned" => a + b,
                "ed.sub_owned" => a - b,
                "ed.add_assign" => { let mut t = a; t += &b; t }
                _ => { let mut t = a; t -= b; t }
            };
            set_ed(ctx, e, r)
        }
        "ed.recode" => {
            // through the wire format and back: the same element in a fresh representation (None if the encoding of a point
            // the library itself produced does not decode - judged by the specification, which expects Some)
            let a = ed_arg(ctx, inp(e, 0)?)?;
            set_opt(ctx, e, a.compress().decompress())
        }
        "ed.neg" | "ed.neg_owned" | "ed.double" | "ed.mul_by_cofactor" | "ed.mul_by_pow_2" | "ed.copy" => {
            let a = ed_arg(ctx, inp(e, 0)?)?;
            let r = match op {
                "ed.neg" => -&a,
                "ed.neg_owned" => -a,
                "ed.double" => hook::edwards_double(&a),
                "ed.mul_by_cofactor" => a.mul_by_cofactor(),
                "ed.copy" => a,
                _ => hook::edwards_mul_by_pow_2(&a, uint(e, "k")? as u32),
            };
            set_ed(ctx, e, r)
        }
        "ed.sum" => {
            let ps = points_of(ctx, &e["in"])?;
            let r: EdwardsPoint = if flag(e, "owned").unwrap_or(false) { ps.into_iter().sum() } else { ps.iter().sum() };
            set_ed(ctx, e, r)
        }
        "ed.cond_select" | "ed.cond_assign" => {
            let a = ed_arg(ctx, inp(e, 0)?)?;
            let b = ed_arg(ctx, inp(e, 1)?)?;
            let c = Choice::from(flag(e, "c")? as u8);
            let r = if op == "ed.cond_select" {
                EdwardsPoint::conditional_select(&a, &b, c)
            } else {
                let mut t = a;
                t.conditional_assign(&b, c);
                t
            };
            set_ed(ctx, e, r)
        }
        // ---- observations --------------------------------------------------------------
        "ed.compress" => {
            let a = ed_arg(ctx, inp(e, 0)?)?;
            Ok(json!({"r": ed_obs(&a)}))
        }
        "ed.eq" => {
            let a = ed_arg(ctx, inp(e, 0)?)?;
            let b = ed_arg(ctx, inp(e, 1)?)?;
            let ct: bool = a.ct_eq(&b).into();
            let cc: bool = a.compress().ct_eq(&b.compress()).into();
            Ok(json!({"ok": a == b, "ct": ct, "cc": cc}))
        }
        "ed.is_identity" | "ed.is_small_order" | "ed.is_torsion_free" => {
            let a = ed_arg(ctx, inp(e, 0)?)?;
            let r = match op {
                "ed.is_identity" => a.is_identity(),
                "ed.is_small_order" => a.is_small_order(),
                _ => a.is_torsion_free(),
            };
            Ok(json!({"ok": r}))
        }
        "ed.to_montgomery" => {
            let a = ed_arg(ctx, inp(e, 0)?)?;
            let m = a.to_montgomery();
            if let Some(o) = e["out"].as_str() {
                ctx.set(o, Reg::Mont(m));
            }
            Ok(json!({"u": jbytes(m.as_bytes())}))
        }
        // ---- scalar multiplication: single point ---------------------------------------
        "ed.mul" | "ed.mul_rev" | "ed.mul_assign" | "ed.mul_owned" => {
            let a = ed_arg(ctx, inp(e, 0)?)?;
            let s = sc_arg(ctx, inp(e, 1)?)?;
            let r = match op {
                "ed.mul" => &a * &s,
                "ed.mul_rev" => &s * &a,
                "ed.mul_owned" => a * s,
                _ => { let mut t = a; t *= &s; t }
            };
            let mut o = set_ed(ctx, e, r)?;
            o["s"] = jbytes(&s.to_bytes());
            Ok(o)
        }
        "ed.mul_base" => {
            let s = sc_arg(ctx, inp(e, 0)?)?;
            let mut o = set_ed(ctx, e, EdwardsPoint::mul_base(&s))?;
            o["s"] = jbytes(&s.to_bytes());
            Ok(o)
        }
        "ed.mul_clamped" => {
            let a = ed_arg(ctx, inp(e, 0)?)?;
            set_ed(ctx, e, a.mul_clamped(arr32(inp(e, 1)?)?))
        }
        "ed.mul_base_clamped" => set_ed(ctx, e, EdwardsPoint::mul_base_clamped(arr32(inp(e, 0)?)?)),
        "ed.vartime_double_scalar_mul_basepoint" => {
            let a = sc_arg(ctx, inp(e, 0)?)?;
            let p = ed_arg(ctx, inp(e, 1)?)?;
            let b = sc_arg(ctx, inp(e, 2)?)?;
            let mut o = set_ed(ctx, e, EdwardsPoint::vartime_double_scalar_mul_basepoint(&a, &p, &b))?;
            o["a"] = jbytes(&a.to_bytes());
            o["b"] = jbytes(&b.to_bytes());
            Ok(o)
        }
        // ---- basepoint tables in every radix ----------------------------------------------
        #[cfg(feature = "tables")]
        "ed.table" => {
            // create a table of the given radix from point in[0], then mul_base(in[1]); also basepoint()
            use curve25519_dalek::edwards::*;
            let p = ed_arg(ctx, inp(e, 0)?)?;
            let s = sc_arg(ctx, inp(e, 1)?)?;
            let clamped = flag(e, "clamped").unwrap_or(false);
            macro_rules! go {
                ($t:ty) => {{
                    let t = <$t>::create(&p);
                    let r = if clamped { t.mul_base_clamped(s.to_bytes()) } else if flag(e, "op_mul").unwrap_or(false) { &s * &t } else { t.mul_base(&s) };
                    (r, t.basepoint())
                }};
            }
            let (r, bp) = match uint(e, "radix")? {
                16 => go!(EdwardsBasepointTableRadix16),
                32 => go!(EdwardsBasepointTableRadix32),
                64 => go!(EdwardsBasepointTableRadix64),
                128 => go!(EdwardsBasepointTableRadix128),
                256 => go!(EdwardsBasepointTableRadix256),
                _ => return Err("radix".into()),
            };
            let mut o = set_ed(ctx, e, r)?;
            o["s"] = jbytes(&s.to_bytes());
            o["bp"] = ed_obs(&bp);
            Ok(o)
        }
        #[cfg(feature = "tables")]
        "ed.table_static" => {
            // the shipped ED25519_BASEPOINT_TABLE, optionally converted to another radix
            use curve25519_dalek::edwards::*;
            let s = sc_arg(ctx, inp(e, 0)?)?;
            let t16 = constants::ED25519_BASEPOINT_TABLE;
            let r = match uint(e, "radix")? {
                16 => t16.mul_base(&s),
                32 => EdwardsBasepointTableRadix32::from(t16).mul_base(&s),
                64 => EdwardsBasepointTableRadix64::from(t16).mul_base(&s),
                128 => EdwardsBasepointTableRadix128::from(t16).mul_base(&s),
                256 => EdwardsBasepointTableRadix256::from(t16).mul_base(&s),
                _ => return Err("radix".into()),
            };
            let mut o = set_ed(ctx, e, r)?;
            o["s"] = jbytes(&s.to_bytes());
            Ok(o)
        }
        // ---- multiscalar ---------------------------------------------------------------------
        "ed.multiscalar_mul" | "ed.vartime_multiscalar_mul" => {
            let ss = scalars_of(ctx, &e["scalars"])?;
            let ps = points_of(ctx, &e["points"])?;
            let r = if op == "ed.multiscalar_mul" {
                EdwardsPoint::multiscalar_mul(ss.iter(), ps.iter())
            } else {
                EdwardsPoint::vartime_multiscalar_mul(ss.iter(), ps.iter())
            };
            let mut o = set_ed(ctx, e, r)?;
            o["ss"] = sc_bytes(&ss);
            Ok(o)
        }
        "ed.optional_multiscalar_mul" => {
            let ss = scalars_of(ctx, &e["scalars"])?;
            let ps = opt_points_of(ctx, &e["points"])?;
            let r = EdwardsPoint::optional_multiscalar_mul(ss.iter(), ps.into_iter());
            let mut o = set_opt(ctx, e, r)?;
            o["ss"] = sc_bytes(&ss);
            Ok(o)
        }
        "ed.precomputed" => {
            // VartimeEdwardsPrecomputation over `static_points`; then one of the three entry points
            let sp = points_of(ctx, &e["static_points"])?;
            let ss = scalars_of(ctx, &e["static_scalars"])?;
            let ds = scalars_of(ctx, &e["dynamic_scalars"])?;
            let pre = curve25519_dalek::edwards::VartimeEdwardsPrecomputation::new(sp.iter());
            let len_ok = pre.len() == sp.len() && pre.is_empty() == sp.is_empty();
            let mode = e["mode"].as_str().unwrap_or("mixed");
            let r = match mode {
                "static" => Some(pre.vartime_multiscalar_mul(ss.iter())),
                "mixed" => {
                    let dp = points_of(ctx, &e["dynamic_points"])?;
                    Some(pre.vartime_mixed_multiscalar_mul(ss.iter(), ds.iter(), dp.iter()))
                }
                _ => {
                    let dp = opt_points_of(ctx, &e["dynamic_points"])?;
                    pre.optional_mixed_multiscalar_mul(ss.iter(), ds.iter(), dp.into_iter())
                }
            };
            let mut o = set_opt(ctx, e, r)?;
            o["ss"] = sc_bytes(&ss);
            o["ds"] = sc_bytes(&ds);
            o["len_ok"] = json!(len_ok);
            Ok(o)
        }
        _ => Err(format!("unknown op {op}")),
    }
}
