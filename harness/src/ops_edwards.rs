//! Edwards point operations (C03, C04).
use crate::*;

pub fn run(op: &str, _e: &Value, _ctx: &mut Ctx) -> Result<Value, String> {
    Err(format!("unknown op {op}"))
}
