#!/usr/bin/env python3
"""Rewrite DESIGN.md section 14.7 (table of seeded changes) from tools/seeded_meta.py's output and seeded/RESULTS.log."""
import os, subprocess, re
HERE = os.path.dirname(os.path.dirname(os.path.abspath(__file__)))
tbl = subprocess.run(["python3", os.path.join(HERE, "tools", "seeded_meta.py")], stdout=subprocess.PIPE, text=True).stdout
rows = [l for l in tbl.split("\n") if l.startswith("| C")]
own = [l for l in rows if re.match(r"\| C\d+-own", l)]
quick_missing = []
for l in rows:
    cols = [c.strip() for c in re.split(r"(?<!\\)\|", l)]
    if "caught in the quick tier" not in cols[5] and "caught (" not in cols[5]:
        quick_missing.append(cols[1])
sec = '''
### 14.7 Seeded changes and the checks that catch them

%d property-breaking changes: %d by independent sub-agents that saw only the text of one property and a scratch worktree
(two rounds per property, three for most, each later round directed at other parts of the code; several agents found the
same defect independently, which the table says), and %d of my own (`C10-own1`, `C11-own1`).
Each was confirmed in a scratch worktree (`seeded/<id>/confirm.log`: the 138 baseline tests pass with the patch, the
demonstration fails with it and passes without it) and then run against the checks on a scratch copy of /repo
(`tools/run_seeded.sh`, results in `seeded/RESULTS.log`; `tools/run_all_seeded.sh` re-runs the whole corpus). "measured"
is the latest run against the machinery at the named commit; the text before it says how the change was first caught
or missed. Every change is caught; all but `C13-m2` (800 terms in the batch equation: quick tier of C04, thorough tier
of C13) and the two `group`-feature changes filed under C06 (caught by C17, which is the check built with that feature)
in the quick tier of the check of their own property or of a closer one named in the row.

''' % (len(rows), len(rows) - len(own), len(own)) + tbl
p = os.path.join(HERE, "DESIGN.md")
s = open(p).read()
i = s.index("\n### 14.7")
s = s[:i] + sec
open(p, "w").write(s.rstrip("\n") + "\n")
print(len(rows), "rows;", "not in quick tier of any listed check:", quick_missing)
