"""Shared machinery of the checks: builds, driver runs, TLC runs, evidence, findings."""
import fcntl
import hashlib
import json
import os
import random
import re
import subprocess
import sys
import time
from concurrent.futures import ThreadPoolExecutor

VERIF = os.path.dirname(os.path.dirname(os.path.abspath(__file__)))
SPEC = os.path.join(VERIF, "spec")
HARNESS = os.path.join(VERIF, "harness")
BUILD = os.path.join(VERIF, "build")
WORK = os.path.join(VERIF, "work")
REPLAYS = os.path.join(VERIF, "replays")
EVIDENCE = os.path.join(VERIF, "evidence")
REPO = "/repo"
# Development aid only (tools/run_seeded.sh): run the same checks against a scratch COPY of the repository and harness,
# so that seeded changes can be tried without touching /repo.  Registered commands never set this.
_ALT = os.environ.get("VERIF_ALT")
if _ALT:
    HARNESS = os.path.join(_ALT, "harness")
    BUILD = os.path.join(_ALT, "build")
    WORK = os.path.join(_ALT, "work")
    REPLAYS = os.path.join(_ALT, "replays")
    EVIDENCE = os.path.join(_ALT, "evidence")
    REPO = os.path.join(_ALT, "repo")
GUARD = "--cfg curve25519_dalek_verif"

P = 2**255 - 19
L = 2**252 + 27742317777372353535851937790883648493


class ToolError(Exception):
    """Anything that is not a verdict about the property (exit code 2)."""


# --------------------------------------------------------------------------- builds
BACKENDS = {
    "s64": dict(flags='--cfg curve25519_dalek_backend="serial"', toolchain=None, bits=64, nlimbs=5, fiat=False),
    "s32": dict(flags='--cfg curve25519_dalek_backend="serial" --cfg curve25519_dalek_bits="32"', toolchain=None, bits=32, nlimbs=10, fiat=False),
    "f64": dict(flags='--cfg curve25519_dalek_backend="fiat"', toolchain=None, bits=64, nlimbs=5, fiat=True),
    "f32": dict(flags='--cfg curve25519_dalek_backend="fiat" --cfg curve25519_dalek_bits="32"', toolchain=None, bits=32, nlimbs=10, fiat=True),
    "v2": dict(flags="", toolchain=None, bits=64, nlimbs=5, fiat=False),
    "v512": dict(flags='--cfg curve25519_dalek_backend="unstable_avx512"', toolchain="nightly", bits=64, nlimbs=5, fiat=False),
}
ALL_BACKENDS = ["s64", "s32", "f64", "f32", "v2", "v512"]


def cfg_id(backend, tables=True, profile="release", features=()):
    s = backend + ("+t" if tables else "-t")
    if profile != "release":
        s += "." + profile
    for f in sorted(features):
        s += "." + f
    return s


def build(backend, tables=True, profile="release", features=()):
    """Build the driver for one configuration from /repo's working tree; returns the binary path."""
    b = BACKENDS[backend]
    cid = cfg_id(backend, tables, profile, features)
    tdir = os.path.join(BUILD, cid)
    os.makedirs(tdir, exist_ok=True)
    # "nz" is a pseudo-feature: the three crates WITHOUT their `zeroize` feature (every other build has it)
    feats = [f for f in features if f != "nz"] + (["tables"] if tables else []) + ([] if "nz" in features else ["zeroize"])
    if backend in ("v2", "v512"):
        feats.append("simd")
    if backend == "v512":
        feats.append("avx512")
    cmd = ["cargo"]
    if b["toolchain"]:
        cmd.append("+" + b["toolchain"])
    cmd += ["build", "--offline", "--profile", profile, "--no-default-features"]
    if feats:
        cmd += ["--features", ",".join(feats)]
    env = dict(os.environ)
    env["CARGO_TARGET_DIR"] = tdir
    env["RUSTFLAGS"] = (GUARD + " " + b["flags"]).strip()
    env["CARGO_NET_OFFLINE"] = "true"
    with open(os.path.join(tdir, ".lock"), "w") as lk:
        fcntl.flock(lk, fcntl.LOCK_EX)
        t0 = time.time()
        r = subprocess.run(cmd, cwd=HARNESS, env=env, stdout=subprocess.PIPE, stderr=subprocess.STDOUT, text=True)
        if r.returncode != 0:
            raise ToolError("build failed for %s:\n%s" % (cid, r.stdout[-4000:]))
    sub = "release" if profile == "release" else profile
    binp = os.path.join(tdir, sub, "driver")
    if not os.path.exists(binp):
        raise ToolError("driver binary missing for " + cid)
    return binp


def nz_filter(ops):
    """the operations available in a ".nz" build (no zeroize feature, hence no ed25519-dalek, whose `alloc` feature would
    switch curve25519-dalek's zeroize back on through feature unification)"""
    gone = ("sig.", "tot.", "serde.", "ff.", "grp.", "mem.")
    return [o for o in ops if not o["op"].startswith(gone) and o["op"] not in ("rng.signing_key", "const.public")]


def build_stepper():
    """compile tools/stepper.c (ptrace single-stepper for C10); returns the binary path"""
    os.makedirs(BUILD, exist_ok=True)
    src = os.path.join(os.path.dirname(os.path.abspath(__file__)), "stepper.c")
    dst = os.path.join(BUILD, "stepper")
    if not os.path.exists(dst) or os.path.getmtime(dst) < os.path.getmtime(src):
        r = subprocess.run(["gcc", "-O2", "-o", dst, src], stdout=subprocess.PIPE, stderr=subprocess.STDOUT, text=True)
        if r.returncode != 0:
            raise ToolError("stepper build failed: " + r.stdout[-2000:])
    return dst


def build_many(specs, jobs=4):
    """specs: list of (backend, tables, profile, features); returns {cfg_id: path}."""
    out = {}
    with ThreadPoolExecutor(max_workers=jobs) as ex:
        futs = {cfg_id(*s): ex.submit(build, *s) for s in specs}
        for k, f in futs.items():
            out[k] = f.result()
    return out


# --------------------------------------------------------------------------- driver
def write_script(path, ops):
    with open(path, "w") as f:
        for o in ops:
            f.write(json.dumps(o, separators=(",", ":")) + "\n")


def run_driver(binp, cid, script, trace, timeout=1800):
    r = subprocess.run([binp, cid, script, trace], stdout=subprocess.PIPE, stderr=subprocess.PIPE, text=True, timeout=timeout)
    if r.returncode != 0:
        raise ToolError("driver %s failed (rc=%d): %s" % (cid, r.returncode, r.stderr[-2000:]))
    return trace


def read_trace(path):
    with open(path) as f:
        return [json.loads(x) for x in f if x.strip()]


# --------------------------------------------------------------------------- TLC
TLC_JAVA = "-Xss1g -Xmx%s -XX:ParallelGCThreads=2 -Dtlc2.tool.queue.IStateQueue=StateDeque"


def _tlc(args, env_extra, workdir, timeout, xmx="3g"):
    env = dict(os.environ)
    env["JAVA_TOOL_OPTIONS"] = TLC_JAVA % xmx
    env.update(env_extra)
    os.makedirs(workdir, exist_ok=True)
    meta = os.path.join(workdir, "meta")
    cmd = ["timeout", str(timeout), "tlc", "-metadir", meta, "-cleanup", "-noGenerateSpecTE"] + args
    t0 = time.time()
    r = subprocess.run(cmd, cwd=SPEC, env=env, stdout=subprocess.PIPE, stderr=subprocess.STDOUT, text=True)
    return r.returncode, r.stdout, time.time() - t0


def validate_trace(trace, workdir, module="TraceAll", cfg=None, timeout=3000):
    """Code -> spec: TLC checks the recorded events against the specification.
    Returns dict(events, bad=[...], states)."""
    cfg = cfg or (module + ".cfg")
    rc, out, wall = _tlc(["-workers", "1", "-config", cfg, module + ".tla"], {"TRACE": os.path.abspath(trace)}, workdir, timeout)
    m = re.search(r'<<"VERDICT", "(.*)">>', out)
    if rc == 124:
        raise ToolError("TLC timeout validating " + trace)
    if not m or "Model checking completed. No error has been found." not in out:
        um = re.search(r'<<"UNMATCHED".*', out)
        raise ToolError("trace validation did not complete for %s (rc=%d): %s\n%s" % (trace, rc, um.group(0)[:600] if um else "", out[-3000:]))
    verdict = json.loads(m.group(1).replace('\\"', '"').replace("\\\\", "\\"))
    sm = re.search(r"(\d+) states generated, (\d+) distinct states found", out)
    verdict["states"] = int(sm.group(2)) if sm else 0
    verdict["wall_s"] = wall
    verdict["trace"] = trace
    return verdict


def model_check(module, cfg, workdir, workers=4, timeout=1500, extra=(), expect_violation=False, xmx="6g"):
    """Exhaustive TLC run of a toy configuration.  Returns dict(states, distinct, ok, coverage...)."""
    rc, out, wall = _tlc(["-workers", str(workers), "-config", cfg] + list(extra) + [module + ".tla"], {}, workdir, timeout, xmx=xmx)
    if rc == 124:
        raise ToolError("TLC timeout on %s/%s" % (module, cfg))
    sm = re.search(r"(\d+) states generated, (\d+) distinct states found", out)
    ok = "Model checking completed. No error has been found." in out
    violated = "is violated" in out or "Invariant" in out and "violated" in out
    res = dict(module=module, cfg=cfg, generated=int(sm.group(1)) if sm else 0, distinct=int(sm.group(2)) if sm else 0,
               ok=ok, violated=violated, wall_s=round(wall, 1), out=out)
    if expect_violation:
        if not violated:
            raise ToolError("kept counterexample %s/%s was NOT found by TLC:\n%s" % (module, cfg, out[-2000:]))
    else:
        if not ok:
            if violated:
                res["ok"] = False
            else:
                raise ToolError("TLC failed on %s/%s (rc=%d):\n%s" % (module, cfg, rc, out[-3000:]))
    return res


def split_trace(path, k):
    """Cut a trace into at most k files at `reset` events; returns the list of paths."""
    if k <= 1:
        return [path]
    lines = [x for x in open(path) if x.strip()]
    cuts = [i for i, x in enumerate(lines) if '"op":"reset"' in x]
    if not cuts:
        return [path]
    target = max(1, len(lines) // k)
    bounds = [0]
    for c in cuts:
        if c - bounds[-1] >= target and len(bounds) < k:
            bounds.append(c)
    bounds.append(len(lines))
    out = []
    for j in range(len(bounds) - 1):
        pp = "%s.part%d" % (path, j)
        with open(pp, "w") as f:
            f.writelines(lines[bounds[j]:bounds[j + 1]])
        out.append(pp)
    return out


def tlc_prints(out, tag):
    """Collect PrintT(<<tag, json>>) lines from TLC output."""
    res = []
    for m in re.finditer(r'<<"%s", "(.*)">>' % re.escape(tag), out):
        try:
            res.append(json.loads(m.group(1).replace('\\"', '"').replace("\\\\", "\\")))
        except Exception:
            res.append(m.group(1))
    return res


# --------------------------------------------------------------------------- helpers for generators
def le(n, length=32):
    return list(int(n).to_bytes(length, "little"))


def from_le(b):
    return int.from_bytes(bytes(b), "little")


def limb_bytes(limbs):
    return [le(x, 8) for x in limbs]


SHIFTS = {5: [0, 51, 102, 153, 204], 10: [0, 26, 51, 77, 102, 128, 153, 179, 204, 230]}


def split_limbs(v, nl):
    """Canonical split of an integer < 2^255 into nl limbs (radix 2^51 / 2^25.5)."""
    sh = SHIFTS[nl] + [255]
    return [(v >> sh[i]) & ((1 << (sh[i + 1] - sh[i])) - 1) for i in range(nl)]


def limb_value(limbs):
    sh = SHIFTS[len(limbs)]
    return sum(x << s for x, s in zip(limbs, sh))


# --------------------------------------------------------------------------- verdicts and evidence
class Check:
    """Bookkeeping of one check run: collects coverage, mismatches and writes the evidence."""

    def __init__(self, pid, level="model_checking"):
        self.pid = pid
        self.level = level
        self.tier = os.environ.get("VERIF_TIER", "quick")
        self.seed = int(os.environ.get("VERIF_SEED", "1"))
        self.rng = random.Random(self.seed * 1000003 + int(hashlib.sha256(pid.encode()).hexdigest()[:8], 16))
        self.t0 = time.time()
        self.states = 0
        self.transitions = 0
        self.traces = 0
        self.events = 0
        self.samples = []
        self.violations = []       # dicts with 'what' and replay data
        self.known_hits = []
        self.cov = {}
        self.assumptions = []
        self.workdir = os.path.join(WORK, pid)
        os.makedirs(self.workdir, exist_ok=True)
        os.makedirs(REPLAYS, exist_ok=True)
        os.makedirs(EVIDENCE, exist_ok=True)
        self.known = load_known_findings(pid)
        # thorough tier: the conformance part of a check is repeated `rounds` times with fresh random draws (the model-checking
        # obligations are deterministic and run in round 0 only); a round that finds a violation ends the run
        self.round = 0
        self.rounds = 1
        self._mc_cache = {}

    def quick(self):
        return self.tier != "thorough"

    # ---- model checking
    def mc(self, module, cfg, note=None, **kw):
        if self.round > 0:
            return self._mc_cache.get((module, cfg))
        r = self._mc_cache[(module, cfg)] = model_check(module, cfg, os.path.join(self.workdir, "mc_" + cfg.replace(".cfg", "")), **kw)
        self.states += r["distinct"]
        self.transitions += r["generated"]
        self.cov.setdefault("tlc_runs", []).append(dict(module=module, cfg=cfg, distinct=r["distinct"], generated=r["generated"],
                                                       wall_s=r["wall_s"], result="ok" if r["ok"] else "violated", note=note or ""))
        if not r["ok"] and not kw.get("expect_violation"):
            # a violated invariant of the toy model = the specification's own layers disagree: tool error
            raise ToolError("toy model %s/%s violated an invariant (specification inconsistency):\n%s" % (module, cfg, r["out"][-3000:]))
        return r

    # ---- Apalache (symbolic, full-size integers): optional extras; a run that does not finish is "not run", never a pass
    def apalache(self, module, length, note, cinit=None, expect_violation=False, timeout=600, init=None, inv="Inv"):
        if self.round > 0:
            return self._mc_cache.get(("apalache", module, cinit, init, inv))
        self._mc_cache[("apalache", module, cinit, init, inv)] = "counterexample" if expect_violation else "no error"
        wd = os.path.join(self.workdir, "apa_" + module + ("_" + cinit if cinit else "") + ("_" + init if init else "") + ("_" + inv if inv != "Inv" else ""))
        cmd = ["timeout", str(timeout), "apalache-mc", "check", "--inv=" + inv, "--length=%d" % length, "--out-dir=" + wd]
        if cinit:
            cmd.append("--cinit=" + cinit)
        if init:
            cmd.append("--init=" + init)
        cmd.append(module + ".tla")
        t0 = time.time()
        r = subprocess.run(cmd, cwd=os.path.join(SPEC, "apalache"), stdout=subprocess.PIPE, stderr=subprocess.STDOUT, text=True,
                           env=dict(os.environ, JVM_ARGS="-Xss512m"))
        out = r.stdout
        if "EXITCODE: OK" in out:
            res = "no error"
        elif "EXITCODE: ERROR (12)" in out:
            res = "counterexample"
        else:
            res = "not run"
        self.cov.setdefault("apalache_runs", []).append(dict(module=module, cinit=cinit or "", length=length, result=res, expected="counterexample" if expect_violation else "no error",
                                                            wall_s=round(time.time() - t0, 1), note=note))
        if res == "not run":
            return None
        if (res == "counterexample") != expect_violation:
            raise ToolError("Apalache obligation %s (%s): got '%s'\n%s" % (module, cinit, res, out[-1500:]))
        self.states += 1
        self.transitions += 1
        return res

    # ---- trace validation
    def validate(self, traces, module="TraceAll", jobs=10, script_of=None, chunks=None):
        """traces: list of (label, trace_path). Validates in parallel; records mismatches as violations.
        A trace is cut at `reset` events (which clear the register file) into independent chunks."""
        res = []
        if chunks is None:
            chunks = max(1, jobs // max(1, len(traces)))
        work = []
        for lab, tp in traces:
            parts = split_trace(tp, chunks)
            for k, pp in enumerate(parts):
                work.append((lab if len(parts) == 1 else "%s#%d" % (lab, k), pp))
        with ThreadPoolExecutor(max_workers=jobs) as ex:
            futs = [(lab, tp, ex.submit(validate_trace, tp, os.path.join(self.workdir, "tv_" + re.sub(r"[^A-Za-z0-9_.+#-]", "_", lab)), module)) for lab, tp in work]
            for lab, tp, f in futs:
                v = f.result()
                res.append((lab, v))
                self.traces += 1
                self.events += v["events"]
                self.states += v["states"]
                self.transitions += v["events"]
                self.cov.setdefault("traces", []).append(dict(label=lab, events=v["events"], mismatches=len(v["bad"]), tlc_wall_s=round(v["wall_s"], 1)))
                for b in v["bad"]:
                    if b.get("soft"):
                        # values agree with the specification but an internal representation differs from a limb-exact kernel model:
                        # the model is stale for this code, which is a limit of the evidence and not a violation
                        self.cov.setdefault("stale_kernel_models", []).append(dict(label=lab, op=b.get("op"), line=b.get("line"), why=list((b.get("why") or {}).keys())))
                        continue
                    self.add_violation("%s %s line %s" % (lab, b.get("op"), b.get("line")), dict(label=lab, trace=tp, mismatch=b, script=(script_of or {}).get(lab) or guess_script(tp)))
        return res

    def add_sample_events(self, trace_path, n=3, pred=None):
        try:
            ev = read_trace(trace_path)
        except Exception:
            return
        ev = [e for e in ev if (pred(e) if pred else e.get("op") not in ("info", "reset", "force_backend"))]
        for e in self.rng.sample(ev, min(n, len(ev))):
            s = json.dumps(e)
            self.samples.append(json.loads(s) if len(s) < 3000 else {"op": e.get("op"), "i": e.get("i"), "truncated": s[:1500]})

    # ---- violations
    def add_violation(self, what, data):
        key = finding_key(what, data)
        for k in self.known:
            if k["match"] and k["match"] in key:
                self.known_hits.append((k, key))
                return
        self.violations.append(dict(what=what, key=key, data=data))

    def finish(self, rule="", extra_cov=None, explanation=None):
        if self.round + 1 < self.rounds and not self.violations:
            return None                      # more rounds to come; counters keep accumulating
        wall = time.time() - self.t0
        cov = dict(self.cov)
        if extra_cov:
            cov.update(extra_cov)
        if self.level == "model_checking":
            cov.update(states=max(self.states, 1), transitions=max(self.transitions, 1), traces_validated_against_impl=self.traces,
                       events_validated=self.events)
        elif self.level in ("exploration", "fault_enumeration"):
            cov.setdefault("evaluations", max(self.events, 1))
        if explanation:
            cov["explanation"] = explanation
        cov["rule"] = rule
        cov["rounds"] = self.round + 1
        cov["samples"] = self.samples[:8] if self.samples else [{"note": "no sample recorded"}]
        ev = dict(property_id=self.pid, tier="thorough" if not self.quick() else "quick", seed=self.seed, level=self.level,
                  coverage=cov, assumptions=self.assumptions, wall_s=round(wall, 1), violations=len(self.violations))
        with open(os.path.join(EVIDENCE, self.pid + ".json"), "w") as f:
            json.dump(ev, f, indent=1)
        for k, key in self.known_hits:
            print("KNOWN-FINDING: property=%s %s" % (self.pid, k["text"]))
        if self.violations:
            for n, v in enumerate(self.violations[:5]):
                rp = os.path.join(REPLAYS, "%s-%d.json" % (self.pid, n))
                v["property"] = self.pid
                with open(rp, "w") as f:
                    json.dump(v, f, indent=1, default=str)
                print("VIOLATION property=%s replay=%s" % (self.pid, rp))
                print("  " + v["what"])
            return 1
        print("OK property=%s tier=%s states=%d events=%d traces=%d wall=%.0fs" % (self.pid, self.tier, self.states, self.events, self.traces, wall))
        return 0


def guess_script(trace_path):
    """the script a trace was produced from, by the naming convention of the checks"""
    base = re.sub(r"\.part\d+$", "", trace_path)
    for cand in (base.replace(".trace.ndjson", ".script.ndjson"), os.path.join(os.path.dirname(base), "script.ndjson"),
                 os.path.join(os.path.dirname(base), "master.script.ndjson")):
        if cand != base and os.path.exists(cand):
            return cand
    return None


def parse_label(lab):
    """'v2-t!serial', 's64+t.ed_legacy', 's32+t.checked/kernels#1' -> (backend, tables, profile, features)"""
    lab = lab.split("#")[0].split("/")[0].split("!")[0]
    m = re.match(r"^([a-z0-9]+)([+-])t((?:\.[A-Za-z_0-9]+)*)$", lab)
    if not m:
        return None
    parts = [x for x in m.group(3).split(".") if x]
    profile = "checked" if "checked" in parts else "release"
    feats = tuple(x for x in parts if x != "checked")
    return m.group(1), m.group(2) == "+", profile, feats


def replay(path):
    """re-execute a recorded violation: rebuild the configuration from /repo's working tree, re-run the script prefix up to
    the failing request, validate the new trace; exit 1 with the VIOLATION line if the mismatch is still there"""
    v = json.load(open(path))
    d = v.get("data", {})
    lab, script, mm = d.get("label"), d.get("script"), d.get("mismatch", {})
    if not (lab and script and os.path.exists(script)):
        print("replay: this record has no script to re-run; recorded finding:\n" + json.dumps(v, indent=1)[:3000])
        return 2
    cfgp = parse_label(lab)
    if not cfgp:
        print("replay: cannot parse configuration label " + lab)
        return 2
    binp = build(*cfgp)
    wd = os.path.join(WORK, "replay")
    os.makedirs(wd, exist_ok=True)
    upto = mm.get("i")
    lines = [x for x in open(script) if x.strip()]
    forced = [json.loads(x) for x in lines[:3] if '"force_backend"' in x]
    prefix = lines if upto is None else lines[: int(upto) + len(forced)]
    sp, tp = os.path.join(wd, "script.ndjson"), os.path.join(wd, "trace.ndjson")
    open(sp, "w").writelines(prefix)
    run_driver(binp, lab.split("#")[0].split("/")[0], sp, tp)
    res = validate_trace(tp, os.path.join(wd, "tv"))
    hit = [b for b in res["bad"] if b.get("op") == mm.get("op")]
    if hit:
        print("VIOLATION property=%s replay=%s" % (v.get("property", os.path.basename(path).split("-")[0]), path))
        print("  reproduced: " + json.dumps(hit[0])[:600])
        return 1
    print("replay: the recorded mismatch does not occur on the current tree (%d events re-validated, %d other mismatches)" % (res["events"], len(res["bad"])))
    return 0


def finding_key(what, data):
    m = data.get("mismatch") if isinstance(data, dict) else None
    if m:
        return "%s|%s|%s" % (m.get("op"), m.get("cfg"), json.dumps(m.get("why"))[:200])
    return what


def load_known_findings(pid):
    """KNOWN_FINDINGS.txt lines:  known: property=<id> match=<substring of finding key> :: <what fails>
                                  fixed: property=<id> <commit> <what failed>            (suppresses nothing)"""
    out = []
    p = os.path.join(VERIF, "KNOWN_FINDINGS.txt")
    if not os.path.exists(p):
        return out
    for line in open(p):
        line = line.strip()
        m = re.match(r"known:\s+property=(\S+)\s+match=(.+?)\s+::\s+(.*)$", line)
        if m and m.group(1) == pid:
            out.append(dict(match=m.group(2), text=m.group(3)))
    return out


def main_wrap(fn):
    try:
        rc = fn()
    except ToolError as e:
        print("TOOL-ERROR: " + str(e), file=sys.stderr)
        sys.exit(2)
    sys.exit(rc)
