#!/usr/bin/env python3
"""Regenerate MANIFEST.json from the table below (single source of truth for the interface)."""
import json, os, subprocess
HERE = os.path.dirname(os.path.dirname(os.path.abspath(__file__)))

def hooks_commits():
    try:
        out = subprocess.run(["git", "-C", "/repo", "log", "--format=%H %s"], stdout=subprocess.PIPE, text=True).stdout
        return [l.split()[0] for l in out.splitlines() if "verif hook" in l]
    except Exception:
        return []

CHECKS = {}
def chk(pid, cat, text, note, technique, design):
    CHECKS[pid] = dict(property_id=pid, quick_cmd="./vcheck %s --tier quick" % pid, thorough_cmd="./vcheck %s --tier thorough" % pid,
                       evidence_file="/verif/evidence/%s.json" % pid, replay_cmd_template="./vcheck %s --replay {path}" % pid,
                       engine="tlc-trace", level_claimed=dict(category=cat, text=text, design_ref=design), level_note=note, technique=technique)

chk("C01", "model_checking",
    "TLC exhausts Field.tla on GF(29)/GF(101) (all pairs of encodings; algorithmic sqrt_ratio_i = declarative contract), the generic limb kernels on every "
    "admissible representation (p=61, p=251) and the full-size exponent chains; every field operation of all six backends is then executed from raw limbs "
    "(per-limb boundary alphabet, values around p and 2^255, four sqrt cases) and each recorded call is judged by the same specification at full size.",
    "For-all holds for the specification and on toy parameters; the Rust code is bound on the finite set of recorded calls. Trusted: TLC, BigInteger override, driver projection.",
    "TLA+ spec + TLC exhaustive toy models + trace validation of the real code (all 6 backends)", "DESIGN.md 5/C01")
chk("C02", "model_checking",
    "TLC exhausts Scalar.tla on three toy group orders (all pairs, all wide inputs, generic Montgomery layer) and the full-size inversion chain; every public scalar "
    "constructor and operator form is executed on directed boundary families and judged by the specification at full size.",
    "Same binding caveat as C01; SHA-512 is java.security.MessageDigest.", "TLA+ spec + TLC exhaustive toy models + trace validation", "DESIGN.md 5/C02")

chk("C03", "model_checking",
    "TLC exhausts, on toy curves of order 40/88/104, that dalek's extended / completed / Niels formulas (EdwardsAlg) refine the affine group law (Edwards) for ALL pairs of "
    "points of the full group in several projective representatives, all 256 encodings for decompression, and that the API state machine (Api.tla) preserves the "
    "representation invariant along all histories to the explored depth. Conformance: class-directed pairs (P=Q, -P, P+T, small/mixed order), decompression families, "
    "TLC-simulated histories replayed at full size and long mixed chains; compressed bytes and the four coordinates are judged by the specification's own register file.",
    "For-all on toy parameters and for the specification; code bound on finite executions. pyed.py only constructs inputs.",
    "TLA+ spec + TLC exhaustive toy models + spec->code history replay + trace validation", "DESIGN.md 5/C03")
chk("C04", "model_checking",
    "TLC checks every digit recoding on all 65 536 two-byte scalars (reconstruction, ranges, carries, kept counterexample above 2^(8LEN-1)) and every scalar-multiplication "
    "algorithm (variable base, tables of every radix, double base, Straus ct/vartime, Pippenger w=6..8) against repeated addition for every point of the full toy group and every "
    "scalar below 2^7. Conformance: digit arrays through the hook; every entry point with reduced and unreduced scalars, sizes around 190 (thorough 500/800), tables on/off, forced dispatch.",
    "Same caveat; large multiscalar expectations are computed by the joint double-and-add (MSMJoint), shown equal to the definition on the toy group.",
    "TLA+ spec + TLC exhaustive toy models + trace validation across builds and forced dispatch", "DESIGN.md 5/C04")
chk("C06", "model_checking",
    "TLC exhausts RFC 9496 decode/encode/equals/map (Ristretto.tla) on toy curves: exactly l' strings decode, re-encoding is the identity, encoding is constant on cosets P+E[4] under "
    "every scaling and injective across cosets, the map lands in 2E for all 65 536 inputs, batched double-and-compress = encode(2P) incl. identity cosets. Conformance: every rejection "
    "class, structured map inputs, histories with 4-torsion translates of the internal representative (hook), multiscalar wrappers, one build without precomputed tables, equality of the compressed type (==, ct_eq, Hash) on strings differing in one bit per byte position.",
    "Same caveat. The root of a*d-1 is the literal RFC 9496 fixes.", "TLA+ spec + TLC exhaustive toy models + trace validation", "DESIGN.md 5/C06")
chk("C07", "model_checking",
    "TLC exhausts all 256x256 (k,u) on toy curves: RFC 7748 ladder = dalek ladder = u-coordinate of the Edwards multiple, twist and small-order u included; the birational map with its "
    "exceptional points; Elligator2 never produces a rejected u; DH agreement. Conformance: byte-level x25519, Montgomery ops, bit-string ladder (lengths 0..300), typed DH for the three "
    "secret types, conversions, Ed25519->X25519 key conversion. Xproto.tla: key-agreement SESSIONS as a state machine (typed secrets and their lifetimes, wire slots, an adversary "
    "injecting / re-encoding / copying keys): every 4-step history on the toy curve (agreement, contributory <=> not small order, alias independence); TLC-generated 12-step "
    "behaviours replayed on live x25519-dalek objects at full size and validated by TraceX.tla through the same transition functions.",
    "Same caveat.", "TLA+ spec + TLC exhaustive toy models + TLC-generated behaviours replayed into the code + trace validation", "DESIGN.md 5/C07, 14.11")
chk("C08", "model_checking",
    "Ed25519.tla transcribes RFC 8032 5.1 (SHA-512 uninterpreted, evaluated by MessageDigest); TLC checks the signing algebra over the toy group with an abstract hash. Conformance: seeds x "
    "message lengths at block edges x contexts (0..255, refusal above), keypair import with matching/foreign/undecodable halves, every verification variant under right and wrong key/message/context; "
    "RFC 8032 vectors reproduced by the specification (self-test).",
    "SHA-512 trusted. Same binding caveat.", "TLA+ spec + TLC toy model + trace validation", "DESIGN.md 5/C08")
chk("C09", "model_checking",
    "TLC enumerates all toy key encodings x challenges x S bytes: accepted iff S canonical (legacy: top three bits) and R bytes equal the recomputed encoding; no second encoding; strict subset. "
    "Conformance: adversarial triples (torsion A/R in every encoding, mixed-order pairs satisfying the cofactorless equation, S in [l,2^256), bit flips, repository validation vectors) on builds with and without legacy_compatibility.",
    "Same caveat.", "TLA+ spec + TLC toy model + trace validation", "DESIGN.md 5/C09")
chk("C13", "model_checking",
    "TLC checks the batch equation over the toy group for all coefficient vectors (all valid => identity; a forged prime-order entry => identity only for z=0; kept counterexample on mixed order). "
    "Conformance: batch sizes 0..95 (thorough 250/400), each corruption kind at first/middle/last position, permutations, duplicates, repetition, length mismatches, serial and vector copies.",
    "Outside the precondition only determinism is required. merlin coefficients not modelled.", "TLA+ spec + TLC toy model + trace validation", "DESIGN.md 5/C13")

chk("C05", "model_checking",
    "One request stream (the public-API scripts of C02-C04, C06-C09, C13) is replayed against 12 builds (6 backends x tables on/off) and 5 forced-dispatch variants; two reference traces "
    "are validated against the specification and TraceEquiv.tla requires every public observation and panic field to be identical in all 17 configurations; the dispatcher's decision is logged "
    "by the hook and must take every value possible on this host.",
    "Configurations are complete for what this host can build and run (32-bit backends compiled for x86-64). Inputs are the finite scripts.",
    "TLA+ trace validation + TraceEquiv over merged per-configuration traces", "DESIGN.md 5/C05")
chk("C12", "model_checking",
    "Finite and enumerated completely at full size: the hook dumps every crate-private constant and every raw table entry (radix-16 table 32x8, affine odd multiples 64, AVX2 and IFMA cached tables 64 each) "
    "in every limb representation; TraceVec.tla converts limbs with the build's radix schedule and compares with the definitions (multiples of B by the definitional scalar multiplication, defining equations of "
    "the field and Montgomery constants, l / R / RR / LFACTOR relations, order of B, the eight torsion points being exactly E[8]). Each entry is also selected through the public API under every build and dispatch.",
    "Definitions are those of RFC 7748/8032/9496 as stated in gen_params.py and ASSUMEd in the spec modules. Exhaustive for the shipped tables.",
    "TLA+ definitions evaluated by TLC on hook-dumped constants (exhaustive) + API selection traces", "DESIGN.md 5/C12")
chk("C14", "model_checking",
    "Memory.tla: TLC explores the heap user (collect, compute, wipe, free) for n <= 5: with exact reservation no freed block is tainted; kept counterexamples for a growing vector and for the missing wipe. "
    "Conformance: a logging global allocator records every freed block with a digest of its contents; each operation runs with 3 secrets; the recorded alloc/dealloc sequence is replayed by the specification "
    "(serial, AVX2, IFMA copies). Drops: storage bytes before/after drop_in_place for the six secret-holding types; the seven Zeroize impls.",
    "Tainted = contents differ between runs differing only in the secret. Default realloc (move) is the worst case. Stack residue not observed.",
    "TLA+ heap model + TLC + allocator-trace replay + post-drop storage inspection", "DESIGN.md 5/C14")
chk("C15", "model_checking",
    "The toy models assign every byte string an outcome for every decoder (and show the Elligator2 output is never a rejected point, so the expect() cannot fire). Conformance: 29 entry points x slices of every length "
    "0..96 and 1000, random strings, exceptional values; every event carries its panic field and must have the specified outcome.",
    "catch_unwind in the driver; finite inputs.", "TLA+ spec totality on toy curves + trace validation with panic field", "DESIGN.md 5/C15")
chk("C16", "model_checking",
    "Serde.tla gives the wire form per type and format and the deserialisation rule (length rule + native validity); TLC checks round trip and validation for every toy value and short wire string. "
    "Conformance: 11 types x valid values, non-canonical scalars, invalid points, truncated / extended / empty payloads, wrong length prefixes, out-of-range JSON elements x bincode / bincode strict / JSON; PKCS#8 v1 / v2 documents and SubjectPublicKeyInfo (one build with the pkcs8 feature): accepted iff the embedded key is the seed's public key; equality of the compressed wire types.",
    "Trailing bytes for tuple-encoded types are bincode's business: checked with reject_trailing_bytes() and JSON. ed25519::Signature's impl is in an external crate.",
    "TLA+ wire-format spec + TLC toy model + trace validation", "DESIGN.md 5/C16")
chk("C17", "model_checking",
    "GroupTraits.tla: sqrt returns a root exactly for residues, invert None only for 0, from_repr canonical only, constants (modulus, 2^-1, generator a non-residue, root of unity of exact order 4 and its inverse, delta) by their relations; "
    "GroupEncoding = compress/decompress, subgroup wrapper admits exactly torsion-free points, clear_cofactor = [8]. Toy: field axioms and subgroup facts. Conformance: driver built with the group feature.",
    "That 2 generates the whole multiplicative group is not established (needs the factorisation of l-1).", "TLA+ spec + TLC toy models + trace validation", "DESIGN.md 5/C17")

chk("C10", "exploration",
    "A property of the compiled artefact: the specification contributes the secrecy policy, the acceptance rule and TLC-checked mechanism models (Leakage.tla, self-composition over toy secrets, "
    "kept counterexamples for the leaky variants). The verdict comes from dynamic analysis of the release binary: memcheck with the secret bytes marked undefined (a report is a candidate) and lock-step "
    "comparison of the instruction-address + data-address sequence between two markers (valgrind lackey) for seven secrets per operation (structured, algebraic boundary values, random), which is run on every candidate (a second pass uses 16 secrets) and unconditionally on a subset (thorough: all). "
    "A taint report that no tested secret reproduces stays a candidate in the evidence (a branch whose outcome is an invariant, like an always-true assert on secret-derived data, looks like that). The AVX-512 IFMA build, which valgrind cannot execute, is single-stepped natively with ptrace between the same markers "
    "and its instruction-address sequences are compared the same way.",
    "Finite secrets and operations; for the AVX-512 build only the instruction-address sequence is observed, not data addresses; nothing below the instruction/address level is observed.",
    "memcheck secret-taint + lackey / ptrace lock-step instruction and address traces; TLA+ policy and mechanism models", "DESIGN.md 5/C10, 14.2")
chk("C11", "model_checking",
    "Bounds.tla / BoundsAvx2.tla / BoundsIfma.tla: limb-bound factors through every kernel contract, group formula, exponent chain, square root, encoder, decoder and map (serial u64, u32; AVX2 per lane; AVX-512 IFMA per lane and limb over the "
    "limb-exact kernel model IfmaField.tla), TLC explores all chains of formulas from the inductive type invariant and checks every kernel precondition at every program point (re-deriving b < 1.01/1.6/2.33/1.6), with kept counterexamples; "
    "toy kernels show no intermediate exceeds its word. Conformance: IFMA vector operations are validated limb for limb, directed extreme operands (tools/ifma_extreme.json) through mul / negate_lazy / diff_sum; kernels from raw limbs at the contract boundary and group formulas on "
    "all-limbs-at-the-bound coordinates in builds with overflow checks and debug assertions (6 backends), AVX2 kernels from raw lanes at every documented pre-bound, and checked = release on the public-API master script.",
    "Factor arithmetic over-approximates; only concrete executions (panic, wrong value, checked != release) are violations.",
    "TLA+ bound-propagation models + TLC + checked-build / boundary-representation trace validation", "DESIGN.md 5/C11, 14.4, 14.6")

NOT_YET = {}

def main():
    props = [json.loads(l)["id"] for l in open(os.path.join(HERE, "properties.jsonl"))]
    m = dict(version=1,
             setup_cmd="./setup.sh",
             hooks=dict(guard="curve25519_dalek_verif", enable="RUSTFLAGS='--cfg curve25519_dalek_verif' (set by tools/vlib.py build())",
                        baseline_off_cmd="cd /repo && cargo nextest run --workspace --no-fail-fast --tool-config-file pb:/w/lib/nextest.toml --profile pb --test-threads 8 --offline || cargo test --workspace --no-fail-fast --offline",
                        source_commits=hooks_commits(), add_only=True),
             engines=[dict(name="tlc-trace", path="/verif/vcheck", serves_properties=sorted(CHECKS), kind_free_text="TLA+ specification (spec/), TLC exhaustive toy models, TLC trace validation of driver traces (harness/)")],
             checks=[CHECKS[p] for p in props if p in CHECKS],
             not_applicable=[dict(property_id=p, reason=NOT_YET.get(p, "check not yet built in this session (construction order in DESIGN.md section 13); not claimed")) for p in props if p not in CHECKS],
             notes="See DESIGN.md (section 14 is the as-built summary). Exit codes: 0 held, 1 VIOLATION, 2 tool error. Measured on this 16-core sandbox: all 17 quick commands together about 30 min (each 5 s to 4 min); thorough commands 4 to 35 min each, except C02 (about 80 min: Apalache on the 29-bit Montgomery reduction). Checks may be run concurrently (separate work directories, per-configuration build locks). Two genuine defects were found and repaired in /repo (KNOWN_FINDINGS.txt).")
    json.dump(m, open(os.path.join(HERE, "MANIFEST.json"), "w"), indent=1)

if __name__ == "__main__":
    main()
