#!/usr/bin/env python3
"""Regenerate MANIFEST.json from the table below (single source of truth for the interface)."""
import json, os, subprocess
HERE = os.path.dirname(os.path.dirname(os.path.abspath(__file__)))

def hooks_commits():
    try:
        out = subprocess.run(["git", "-C", "/repo", "log", "--format=%H %s"], stdout=subprocess.PIPE, text=True).stdout
        return [l.split()[0] for l in out.splitlines() if "verif hook" in l]
    except Exception:
        return []

CHECKS = {}
def chk(pid, cat, text, note, technique, design):
    CHECKS[pid] = dict(property_id=pid, quick_cmd="./vcheck %s --tier quick" % pid, thorough_cmd="./vcheck %s --tier thorough" % pid,
                       evidence_file="/verif/evidence/%s.json" % pid, replay_cmd_template="./vcheck %s --replay {path}" % pid,
                       engine="tlc-trace", level_claimed=dict(category=cat, text=text, design_ref=design), level_note=note, technique=technique)

chk("C01", "model_checking",
    "TLC exhausts Field.tla on GF(29)/GF(101) (all pairs of encodings; algorithmic sqrt_ratio_i = declarative contract), the generic limb kernels on every "
    "admissible representation (p=61, p=251) and the full-size exponent chains; every field operation of all six backends is then executed from raw limbs "
    "(per-limb boundary alphabet, values around p and 2^255, four sqrt cases) and each recorded call is judged by the same specification at full size.",
    "For-all holds for the specification and on toy parameters; the Rust code is bound on the finite set of recorded calls. Trusted: TLC, BigInteger override, driver projection.",
    "TLA+ spec + TLC exhaustive toy models + trace validation of the real code (all 6 backends)", "DESIGN.md 5/C01")
chk("C02", "model_checking",
    "TLC exhausts Scalar.tla on three toy group orders (all pairs, all wide inputs, generic Montgomery layer) and the full-size inversion chain; every public scalar "
    "constructor and operator form is executed on directed boundary families and judged by the specification at full size.",
    "Same binding caveat as C01; SHA-512 is java.security.MessageDigest.", "TLA+ spec + TLC exhaustive toy models + trace validation", "DESIGN.md 5/C02")

NOT_YET = {}

def main():
    props = [json.loads(l)["id"] for l in open(os.path.join(HERE, "properties.jsonl"))]
    m = dict(version=1,
             setup_cmd="./setup.sh",
             hooks=dict(guard="curve25519_dalek_verif", enable="RUSTFLAGS='--cfg curve25519_dalek_verif' (set by tools/vlib.py build())",
                        baseline_off_cmd="cd /repo && cargo nextest run --workspace --no-fail-fast --tool-config-file pb:/w/lib/nextest.toml --profile pb --test-threads 8 --offline || cargo test --workspace --no-fail-fast --offline",
                        source_commits=hooks_commits(), add_only=True),
             engines=[dict(name="tlc-trace", path="/verif/vcheck", serves_properties=sorted(CHECKS), kind_free_text="TLA+ specification (spec/), TLC exhaustive toy models, TLC trace validation of driver traces (harness/)")],
             checks=[CHECKS[p] for p in props if p in CHECKS],
             not_applicable=[dict(property_id=p, reason=NOT_YET.get(p, "check not yet built in this session (construction order in DESIGN.md section 13); not claimed")) for p in props if p not in CHECKS],
             notes="See DESIGN.md. Exit codes: 0 held, 1 VIOLATION, 2 tool error.")
    json.dump(m, open(os.path.join(HERE, "MANIFEST.json"), "w"), indent=1)

if __name__ == "__main__":
    main()
