#!/bin/bash
# run_benign.sh <id> [checks...] : a behaviour-preserving change (seeded/<id>/patch.diff, id = BN...) against the quick tier of the
# given checks (default: all 17); every line it appends to seeded/RESULTS.log must say rc=0 - anything else is a false alarm.
id=$1; shift
CHECKS=${@:-C01 C02 C03 C04 C05 C06 C07 C08 C09 C10 C11 C12 C13 C14 C15 C16 C17}
cd /verif
for c in $CHECKS; do tools/run_seeded.sh $id $c quick; done
rm -rf /tmp/seedrun/$id
