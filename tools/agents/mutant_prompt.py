import json, sys
pid, wid, area = sys.argv[1], sys.argv[2], sys.argv[3]
d = [json.loads(l) for l in open('/verif/properties.jsonl') if json.loads(l)['id'] == pid][0]
print(f"""You are working in a scratch git worktree of the Rust repository dalek-cryptography/curve25519-dalek at /tmp/mut/{wid} (a cargo workspace with crates curve25519-dalek, curve25519-dalek-derive, ed25519-dalek, x25519-dalek). Work ONLY inside /tmp/mut/{wid}. There is no network; use `--offline` with cargo. Never touch /repo or /verif and do not read anything under /verif.

Here is a semantic property of this code base that is supposed to hold:

Property {pid}: {d['title']}

{d['statement']}

Quantifier: {d['quantifier']['text']}

Your task: produce realistic source changes ("mutants") to the LIBRARY code (not to tests) that BREAK this property while the code still compiles and the EXISTING test suite still passes. The existing test suite is run with:
  cd /tmp/mut/{wid} && cargo test --workspace --no-fail-fast --offline
(138 tests pass on the unchanged tree; one doc-test in curve25519-dalek-derive, lib.rs line 84 "compile fail", already fails on the unchanged tree - ignore it; use CARGO_TARGET_DIR=/tmp/mut/{wid}/target so build output stays inside the worktree). All of the 138 must still pass with your change.

Requirements for each mutant:
- It must be a plausible bug a developer could introduce (off-by-one, wrong constant or mask, missing or weakened check, wrong operand, wrong branch, missed special case, reordered steps) - small, a few lines.
- It should need something SPECIFIC to manifest - an unusual or boundary input, a particular build configuration (for instance RUSTFLAGS='--cfg curve25519_dalek_backend="serial"', '--cfg curve25519_dalek_backend="fiat"', '--cfg curve25519_dalek_bits="32"', the precomputed-tables feature off, the legacy_compatibility / serde / group / batch features), a multi-step sequence of operations, a particular size regime, or two cooperating sites that each look fine alone - NOT something ordinary use or the existing tests would expose at once.
- Provide a demonstration: a new test file (placed under MUTANT<n>/demo/, with instructions how to run it by copying it into a crate's tests/ directory) that FAILS with your change applied and PASSES on the unchanged tree.

Produce TWO mutants that use different mechanisms / different places in the code. For each mutant n = 1, 2 create the directory /tmp/mut/{wid}/MUTANT<n>/ containing:
  - patch.diff : `git diff` of the library sources relative to HEAD (must apply cleanly with `git apply` on the unchanged tree)
  - demo/      : the demonstration
  - README.md  : which part of the property it breaks, what it needs in order to manifest, and the exact commands you ran with their observed results (existing tests pass with the change; demo fails with the change; demo passes without it)

Actually run everything you claim. When you are finished, revert the library sources to the unchanged state (git checkout -- . for tracked files; keep the untracked MUTANT1/ MUTANT2/ directories) and remove the target directory /tmp/mut/{wid}/target to free disk space. In your final message, summarise each mutant in 3-4 lines.

Focus area for this run (other people are covering the rest of the code): make both mutants in {area}.""")
