"""C17 - ff/group trait implementations agree with the inherent API and the axioms.
TLC: MC_Scalar (field axioms over Z/l' for all elements), MC_Edwards (subgroup / cofactor facts on the toy group).
Conformance: driver built with the `group` feature: Field/PrimeField of Scalar incl. constants, GroupEncoding of EdwardsPoint,
SubgroupPoint, RistrettoPoint, CofactorGroup on points with every torsion component."""
import os
import json
from vlib import *
import pyed


THOROUGH_ROUNDS = 6      # repetitions of the conformance part in the thorough tier (fresh random draws each)
def gen(rng, quick):
    ops = [{"op": "info"}, {"op": "ff.constants"}]
    N = 1 if quick else 8
    sc = [0, 1, 2, 3, 4, L - 1, L - 2, (L - 1) // 2, (L + 1) // 2, 2**252, pow(2, (L - 1) // 4, L)] + [rng.randrange(L) for _ in range(40 * N)]
    sc += [x * x % L for x in (rng.randrange(L) for _ in range(20 * N))]            # guaranteed residues
    sc += [2 * x * x % L for x in (rng.randrange(1, L) for _ in range(20 * N))]       # guaranteed non-residues (2 is one)
    for a in sc:
        ops.append({"op": "ff.scalar", "in": [le(a), le(rng.choice(sc))]})
    ops.append({"op": "ff.scalar", "in": [le(5), le(0)]})
    ops.append({"op": "ff.scalar", "in": [le(0), le(0)]})
    for v in [0, 1, L - 1, L, L + 1, 2 * L, 2**252, 2**253, 2**255, 2**256 - 1] + [rng.getrandbits(256) for _ in range(20 * N)] + [rng.randrange(L) for _ in range(10)]:
        ops.append({"op": "ff.from_repr", "in": [le(v)]})
    # encodings through GroupEncoding
    encs = [le(v) for v in (0, 1, 2, P - 1, P, P + 1, 2**255 - 1, 2**255 + 1, 2**256 - 1)] + pyed.noncanonical_encodings()[:8]
    encs += [pyed.compress(pyed.mul(k, pyed.T8)) for k in range(8)]
    for _ in range(20 * N):
        encs.append(le(rng.getrandbits(256)))
        encs.append(pyed.compress(pyed.mul(rng.randrange(L), pyed.B)))                                            # prime order
        encs.append(pyed.compress(pyed.add(pyed.mul(rng.randrange(L), pyed.B), pyed.mul(rng.randrange(1, 8), pyed.T8))))   # mixed order
        encs.append(pyed.ris_encode(pyed.mul(2 * rng.randrange(1, L), pyed.B)))
    for b in encs:
        ops.append({"op": "grp.from_bytes", "in": [b]})
    # cofactor API on points with each torsion component
    for _ in range(4 * N):
        k = rng.randrange(L)
        for t in range(8):
            ops.append({"op": "reset"})
            ops.append({"op": "ed.mul_base", "in": [le(k if rng.random() < 0.8 else 0)], "out": "E"})
            ops.append({"op": "ed.torsion", "k": t, "out": "T"})
            ops.append({"op": "ed.add", "in": ["E", "T"], "out": "E"})
            ops.append({"op": "grp.cofactor", "in": ["E"]})
    # Ristretto Group impl on different representatives of the identity and of other elements
    ops.append({"op": "reset"})
    ops.append({"op": "ris.identity", "out": "O"})
    ops.append({"op": "ris.from_uniform_bytes", "in": [le(rng.getrandbits(512), 64)], "out": "P"})
    ops.append({"op": "ris.sub", "in": ["P", "P"], "out": "Z"})
    for r in ("O", "P", "Z"):
        ops.append({"op": "grp.ris", "in": [r]})
        for k in (1, 2, 3):
            ops.append({"op": "ris.torsion_translate", "in": [r], "out": "TT", "k": k})
            ops.append({"op": "grp.ris", "in": ["TT"]})
    ops.append({"op": "ris.mul", "in": ["P", le(L - 1)], "out": "Q"})
    ops.append({"op": "ris.add", "in": ["Q", "P"], "out": "Z2"})
    ops.append({"op": "grp.ris", "in": ["Z2"]})
    return ops


def run(ck):
    quick = ck.quick()
    ck.mc("MC_Scalar", "MC_Scalar_101.cfg", note="field axioms over Z/11 for all pairs", workers=8)
    ck.mc("MC_Edwards", "MC_Edwards_29.cfg", note="torsion-free <=> multiple of the base point; small order <=> E[8]", workers=8)
    specs = [("s64", True), ("v2", True)] if quick else [("s64", True), ("s32", True), ("f64", True), ("v2", True), ("v512", True)]
    bins = build_many([(b, t, "release", ("group",)) for b, t in specs], jobs=3)
    ops = gen(ck.rng, quick)
    sp = os.path.join(ck.workdir, "script.ndjson")
    write_script(sp, ops)
    traces = []
    for b, t in specs:
        cid = cfg_id(b, t, "release", ("group",))
        tp = os.path.join(ck.workdir, cid + ".trace.ndjson")
        run_driver(bins[cid], cid, sp, tp)
        traces.append((cid, tp))
    ck.validate(traces)
    ev = read_trace(traces[0][1])
    ck.cov["sqrt_outcomes"] = dict(some=sum(1 for e in ev if e["op"] == "ff.scalar" and e["obs"].get("sqrt_ok")),
                                   none=sum(1 for e in ev if e["op"] == "ff.scalar" and e["obs"].get("sqrt_ok") is False))
    ck.cov["into_subgroup_outcomes"] = dict(some=sum(1 for e in ev if e["op"] == "grp.cofactor" and e["obs"].get("into_ok")),
                                            none=sum(1 for e in ev if e["op"] == "grp.cofactor" and e["obs"].get("into_ok") is False))
    ck.add_sample_events(traces[0][1], 3, pred=lambda e: e["op"].startswith(("ff.", "grp.")) and len(json.dumps(e)) < 2500)
    ck.assumptions += ["that 2 generates the whole multiplicative group of Z/l is NOT established (needs the factorisation of l-1); the relations listed in GroupTraits.tla are",
                       "BigNat.class", "TLC/SANY"]
    return ck.finish(rule="toy: field axioms for all pairs of Z/l'; full size: residues and non-residues (constructed), 0, +-1, boundary values for from_repr, every decoder on "
                     "valid / invalid / small-order / mixed-order / non-canonical encodings, cofactor API on k*B + t*T8 for every t, Ristretto Group impl on every representative of the identity; "
                     "distinct by (build, op, operands)")
