"""C16 - serialised forms are canonical and deserialisation validates.
TLC: MC_Serde (toy: round trip for every value of every type; every wire string accepted iff length and payload valid).
Conformance: bincode (default and reject-trailing options) and JSON for every serialisable type of the three crates."""
import os
import json
from vlib import *
import pyed

THOROUGH_ROUNDS = 25      # repetitions of the conformance part in the thorough tier (fresh random draws each)
TYPES = ["scalar", "ed", "ced", "ris", "cris", "mont", "sk", "vk", "sig", "xpub", "xstatic"]


def valid_payload(ty, rng):
    if ty == "scalar":
        return le(rng.choice([0, 1, L - 1, rng.randrange(L)]))
    if ty in ("ed", "vk", "ced"):
        pt = pyed.add(pyed.mul(rng.randrange(L), pyed.B), pyed.mul(rng.randrange(8), pyed.T8))
        return pyed.compress(pt)
    if ty in ("ris", "cris"):
        return pyed.ris_encode(pyed.mul(2 * rng.randrange(1, L), pyed.B))
    if ty == "sig":
        return le(rng.getrandbits(512), 64)
    return le(rng.choice([rng.getrandbits(256), 2**256 - 1, 0]))


def gen(rng, quick):
    ops = [{"op": "info"}]
    for ty in TYPES:
        n = 64 if ty == "sig" else 32
        for _ in range(6 if quick else 40):
            ops.append({"op": "serde.roundtrip", "ty": ty, "in": [valid_payload(ty, rng)]})
        if ty == "ed":       # non-canonical but valid encodings serialise canonically
            for b in pyed.noncanonical_encodings()[:6]:
                ops.append({"op": "serde.roundtrip", "ty": ty, "in": [b]})
        payloads = [valid_payload(ty, rng) for _ in range(3)]
        payloads += [le(L), le(L + 1), le(2**256 - 1, n), le(2, n), le(P, n), le(1, n), le(rng.getrandbits(8 * n), n), le(rng.getrandbits(8 * n), n)]
        payloads += [le(rng.getrandbits(256)) + ([0] * (n - 32)) for _ in range(4 if quick else 40)]
        for p in payloads:
            p = (p + [0] * n)[:n]
            wires = [p, p + [7], p[:-1], p[: n // 2], [], p + p]
            for w in wires:
                js = list(w)
                binw = w if ty not in ("sk", "vk") else le(len(w), 8) + w
                ops.append({"op": "serde.de", "ty": ty, "in": [binw], "js": js})
            if ty in ("sk", "vk"):
                ops.append({"op": "serde.de", "ty": ty, "in": [le(n, 8) + p + [1]], "js": p})           # trailing byte after a well-formed byte string
                ops.append({"op": "serde.de", "ty": ty, "in": [le(n + 1, 8) + p + [1]], "js": p})        # wrong length prefix
                ops.append({"op": "serde.de", "ty": ty, "in": [le(n, 8) + p[:-1]], "js": p})             # truncated
                ops.append({"op": "serde.de", "ty": ty, "in": [le(2**40 + n, 8) + p], "js": p})          # absurd length prefix
            ops.append({"op": "serde.de", "ty": ty, "in": [p if ty not in ("sk", "vk") else le(n, 8) + p], "js": p[:-1] + [256]})   # element out of range
    # equality of the wire types is equality of all 32 bytes (seeded change C06d-m2 ignored the last one): a random string
    # against itself and against the string with one bit flipped in each byte position
    for kind in ('ristretto', 'edwards'):
        a = rng.getrandbits(256)
        ops.append({"op": "enc.eq", "kind": kind, "in": [le(a), le(a)]})
        ops.append({"op": "enc.eq", "kind": kind, "in": [le(0), le(0)]})
        for j in range(32):
            ops.append({"op": "enc.eq", "kind": kind, "in": [le(a), le(a ^ (1 << (8 * j + rng.randrange(8))))]})
            ops.append({"op": "enc.eq", "kind": kind, "in": [le(0), le(1 << (8 * j + rng.randrange(8)))]})
    return ops


def run(ck):
    quick = ck.quick()
    ck.mc("MC_Serde", "MC_Serde_29.cfg", note="toy curve 29: every type x every payload x trailing data", workers=8)
    if not quick:
        ck.mc("MC_Serde", "MC_Serde_101.cfg", note="toy curve 101", workers=8)
    specs = [("s64", True), ("v2", True)] if quick else [(b, True) for b in ALL_BACKENDS]
    bins = build_many([(b, t, "release", ()) for b, t in specs], jobs=3)
    ops = gen(ck.rng, quick)
    sp = os.path.join(ck.workdir, "script.ndjson")
    write_script(sp, ops)
    traces = []
    for b, t in specs:
        cid = cfg_id(b, t)
        tp = os.path.join(ck.workdir, cid + ".trace.ndjson")
        run_driver(bins[cid], cid, sp, tp)
        traces.append((cid, tp))
    # PKCS#8 documents (one extra build with ed25519-dalek's pkcs8 feature): honest, mismatched, undecodable and
    # non-canonical embedded public keys (seeded change C16d-m2 accepted the undecodable ones)
    pb = build_many([("s64", True, "release", ("pkcs8",))], jobs=1)
    pcid = cfg_id("s64", True, "release", ("pkcs8",))
    rng = ck.rng
    pops = [{"op": "info"}]
    for _ in range(4 if quick else 30):
        seed = rng.getrandbits(256)
        honest = from_le(bytes(pyed.public(seed.to_bytes(32, "little"))))
        for pub in [honest, honest ^ (1 << 255), honest ^ 1, 2, 2**255 - 20, 2**255 - 1, 2**256 - 1, 0, 1, (1 + P) % 2**255, rng.getrandbits(256), rng.getrandbits(256)]:
            pops.append({"op": "serde.pkcs8", "in": [le(seed), le(pub)]})
    psp = os.path.join(ck.workdir, "script.pkcs8.ndjson")
    write_script(psp, pops)
    ptp = os.path.join(ck.workdir, pcid + ".trace.ndjson")
    run_driver(pb[pcid], pcid, psp, ptp)
    traces.append((pcid, ptp))
    ck.validate(traces)
    ev = read_trace(traces[0][1])
    ck.cov["deserialise_outcomes"] = dict(accepted=sum(1 for e in ev if e["op"] == "serde.de" and e["obs"].get("strict_ok")),
                                          rejected=sum(1 for e in ev if e["op"] == "serde.de" and e["obs"].get("strict_ok") is False))
    ck.add_sample_events(traces[0][1], 3, pred=lambda e: e["op"].startswith("serde") and len(json.dumps(e)) < 2500)
    ck.assumptions += ["bincode 1.3 and serde_json as the two format implementations; for tuple-encoded types a trailing byte is consumed or ignored by bincode itself, "
                       "so 'over-long input is rejected' is checked with reject_trailing_bytes() and with JSON", "ed25519::Signature's impl lives in the external ed25519 crate", "BigNat.class", "TLC/SANY"]
    return ck.finish(rule="toy: every value and every short wire string per type; full size: 11 types x (valid values incl. non-canonical-but-valid Edwards encodings, "
                     "non-canonical scalars, invalid points, payloads truncated / extended / doubled / empty, wrong and absurd length prefixes, out-of-range JSON elements) x "
                     "{bincode, bincode strict, JSON}; distinct by (build, type, wire)")
