"""C14 - secret material is erased on drop and from freed heap buffers.
TLC: Memory.tla - the heap user (collect / compute / wipe / free) with exact reservation satisfies "no freed block is tainted";
     kept counterexamples: a growing vector, and the user without the wipe.
Conformance: logging global allocator in the driver; each operation runs with the same public inputs and three different secrets;
the recorded alloc/dealloc sequence is replayed by the specification. Drops: storage bytes before/after drop_in_place; explicit zeroize."""
import os
import json
from vlib import *


THOROUGH_ROUNDS = 25      # repetitions of the conformance part in the thorough tier (fresh random draws each)
def gen(rng, quick, forced=None):
    ops = [{"op": "info"}]
    if forced:
        ops.append({"op": "force_backend", "kind": forced})
    sizes = [0, 1, 2, 3, 8, 64] + ([] if quick else [200])
    for n in sizes:
        pub = [le(rng.randrange(1, L)) for _ in range(n)]
        secrets = [[le(rng.randrange(1, L)) for _ in range(n)] for _ in range(3)]
        for target in ("ed.multiscalar_mul", "ris.multiscalar_mul", "sc.batch_invert"):
            ops.append({"op": "mem.run", "target": target, "public": pub, "secrets": secrets})
    for ty in ("SigningKey", "ExpandedSecretKey", "StaticSecret", "EphemeralSecret", "ReusableSecret"):
        for _ in range(3):
            ops.append({"op": "mem.drop", "ty": ty, "in": [le(rng.getrandbits(256) | 1)], "alts": [le(rng.getrandbits(256) | 1) for _ in range(2)]})
    for _ in range(3):
        ops.append({"op": "mem.drop", "ty": "SharedSecret", "in": [le(rng.getrandbits(256)), le(9)], "alts": [le(rng.getrandbits(256)) for _ in range(2)]})
        ops.append({"op": "mem.drop", "ty": "SharedSecret", "in": [le(rng.getrandbits(256)), le(rng.getrandbits(255))], "alts": [le(rng.getrandbits(256)) for _ in range(2)]})
    for ty in ("Scalar", "EdwardsPoint", "CompressedEdwardsY", "RistrettoPoint", "CompressedRistretto", "MontgomeryPoint", "StaticSecret"):
        ops.append({"op": "mem.zeroize", "ty": ty, "in": [le(rng.getrandbits(255) | 1) for _ in range(3)]})
    return ops


def run(ck):
    quick = ck.quick()
    ck.mc("MC_Memory", "MC_Memory_exact.cfg", note="heap user with exact reservation, n <= 5: no freed block tainted, all blocks freed", workers=2)
    ck.mc("MC_Memory", "MC_Memory_doubling_neg.cfg", note="kept counterexample: a vector that grows frees a tainted buffer", workers=2, expect_violation=True)
    ck.mc("MC_Memory", "MC_Memory_nowipe_neg.cfg", note="kept counterexample: without the wipe the final buffer is freed tainted", workers=2, expect_violation=True)
    specs = [("s64", True), ("v2", True)] if quick else [("s64", True), ("s32", True), ("f64", True), ("v2", True), ("v512", True), ("v2", False)]
    bins = build_many([(b, t, "release", ()) for b, t in specs], jobs=3)
    traces = []
    for b, t in specs:
        cid = cfg_id(b, t)
        variants = [(cid, None)]
        if b in ("v2", "v512"):
            variants.append((cid + "!serial", 1))
        if b == "v512":
            variants.append((cid + "!avx2", 2))
        for lab, forced in variants:
            sp = os.path.join(ck.workdir, lab + ".script.ndjson")
            tp = os.path.join(ck.workdir, lab + ".trace.ndjson")
            write_script(sp, gen(ck.rng, quick, forced))
            run_driver(bins[cid], lab, sp, tp)
            traces.append((lab, tp))
    ck.validate(traces, chunks=1)
    ev = read_trace(traces[0][1])
    runs = [e for e in ev if e["op"] == "mem.run"]
    ck.cov["allocator"] = dict(runs=len(runs), freed_blocks=sum(sum(1 for x in e["obs"]["events"] if x["k"] == "dealloc") for e in runs),
                               freed_blocks_zero=sum(sum(1 for x in e["obs"]["events"] if x["k"] == "dealloc" and x["zero"]) for e in runs),
                               tainted_freed=sum(sum(1 for x in e["obs"]["events"] if x["k"] == "dealloc" and x["tainted"]) for e in runs))
    ck.samples.append({"op": "mem.run", "target": runs[3]["target"], "n": len(runs[3]["public"]), "events": runs[3]["obs"]["events"]} if len(runs) > 3 else {})
    ck.add_sample_events(traces[0][1], 2, pred=lambda e: e["op"] == "mem.drop")
    ck.assumptions += ["the logging allocator uses GlobalAlloc's default realloc (allocate, copy, free): the worst case for the property",
                       "a freed block is 'tainted' when its contents at the moment of the free differ between three runs that differ only in the secret scalars",
                       "stack residue is outside the property and not observed", "BigNat.class / Hash.class", "TLC/SANY"]
    return ck.finish(rule="toy: every interleaving of the heap user for n <= 5 under both growth policies; full size: constant-time multiscalar (Edwards, Ristretto) and batch "
                     "inversion for n in {0,1,2,3,8,64,(200)} x 3 secrets x serial / AVX2 / IFMA copies (forced dispatch); six secret-holding types dropped in place; seven Zeroize impls; "
                     "distinct by (build, op, n / type)")
