"""C06 - Ristretto is ristretto255 (RFC 9496).
TLC: MC_Ristretto on toy curves (all 256 encodings, all coset representatives and scalings, all 65 536 map inputs).
Conformance: decoding classes, one-way map, representatives P+T4 through the hook, histories, batched double-and-compress."""
import os
from vlib import *
import pyed


THOROUGH_ROUNDS = 5      # repetitions of the conformance part in the thorough tier (fresh random draws each)
def gen(rng, quick):
    ops = [{"op": "info"}, {"op": "ris.basepoint_compressed"}]
    N = 1 if quick else 6
    # ---- decoding: every rejection class and valid encodings
    dec = [le(v) for v in (0, 1, 2, 3, P - 1, P - 2, P, P + 1, P + 2, 2**255 - 1, 2**255, 2**255 + 2, 2**256 - 1, 2**256 - 2)]
    dec += [le(s + P) for s in range(0, 19)]                      # non-canonical s + p
    dec += [le(2 * k) for k in range(1, 40)] + [le(2 * k + 1) for k in range(0, 10)]
    for _ in range(150 * N):
        dec.append(le(rng.getrandbits(256)))
        dec.append(le(rng.getrandbits(254) * 2 % P))               # canonical, non-negative: ~1/4 decode
    for _ in range(25 * N):
        pt = pyed.mul(2 * rng.randrange(1, L), pyed.B)              # an element of 2E
        c = pyed.ris_encode(pt)
        dec += [c, c[:31] + [c[31] | 0x80], le((from_le(c) + P) % 2**256), le(P - from_le(c))]   # valid, bit 255 set, +p, negated s
    for b in dec:
        ops.append({"op": "ris.decompress", "in": [b], "out": "R0"})
        ops.append({"op": "ris.from_slice", "in": [b], "out": "R1"})
    for n in (0, 1, 31, 33, 64):
        ops.append({"op": "ris.from_slice", "in": [[2] * n], "out": "R1"})
    # ---- one-way map
    ops.append({"op": "reset"})
    maps = [le(0, 64), le(1, 64), le(2**512 - 1, 64), le(P, 64), le(P - 1, 64), le((P - 1) << 256, 64), le(1 << 255, 64), le(1 << 511, 64)]
    for _ in range(30 * N):
        a = rng.getrandbits(256)
        maps += [le(rng.getrandbits(512), 64), le(a | (a << 256), 64), le(a | (((P - a % P) % P) << 256), 64), le(a, 64), le(a << 256, 64)]
    for b in maps:
        ops.append({"op": "ris.from_uniform_bytes", "in": [b], "out": "R0"})
    for _ in range(4):
        ops.append({"op": "rng.ristretto", "in": [le(rng.getrandbits(512), 64)], "out": "R0"})
    for n in (0, 1, 64, 111, 112, 200):
        m = [rng.randrange(256) for _ in range(n)]
        ops.append({"op": "ris.hash_from_bytes", "in": [m], "out": "R0"})
        ops.append({"op": "ris.from_hash", "in": [m], "out": "R1"})
        ops.append({"op": "ris.eq", "in": ["R0", "R1"]})
    # ---- representatives: the same element through different histories and 4-torsion translates
    regs = ["R%d" % i for i in range(6)]
    for chain in range(3 * N):
        ops.append({"op": "reset"})
        for r in regs:
            c = rng.random()
            if c < 0.3:
                ops.append({"op": "ris.from_uniform_bytes", "in": [le(rng.getrandbits(512), 64)], "out": r})
            elif c < 0.5:
                ops.append({"op": "ris.decompress", "in": [pyed.ris_encode(pyed.mul(2 * rng.randrange(1, L), pyed.B))], "out": r})
            elif c < 0.6:
                ops.append({"op": "ris.identity", "out": r})
            elif c < 0.7:
                ops.append({"op": "ris.basepoint", "out": r})
            else:
                ops.append({"op": "ris.mul_base", "in": [le(rng.randrange(L))], "out": r})
        for step in range(120):
            a, b, c = rng.choice(regs), rng.choice(regs), rng.choice(regs)
            x = rng.random()
            if x < 0.3:
                ops.append({"op": rng.choice(["ris.add", "ris.sub", "ris.add_assign", "ris.sub_assign"]), "in": [a, b], "out": c})
            elif x < 0.4:
                ops.append({"op": rng.choice(["ris.neg", "ris.copy"]), "in": [a], "out": c})
            elif x < 0.55:
                k = rng.randrange(1, 4)
                ops.append({"op": "ris.torsion_translate", "in": [a], "out": "TT", "k": k})
                ops.append({"op": "ris.eq", "in": [a, "TT"]})
                ops.append({"op": "ris.compress", "in": ["TT"]})
                if rng.random() < 0.5:
                    ops.append({"op": "ris.copy", "in": ["TT"], "out": c})
            elif x < 0.6:
                ops.append({"op": "ris.sum", "in": [rng.choice(regs) for _ in range(rng.randrange(0, 4))], "out": c})
            elif x < 0.65:
                ops.append({"op": "ris.cond_select", "in": [a, b], "out": c, "c": rng.random() < 0.5})
            elif x < 0.8:
                ops.append({"op": "ris.eq", "in": [a, b]})
            elif x < 0.9:
                ops.append({"op": "ris.compress", "in": [a]})
            else:
                n = rng.randrange(0, 6)
                ops.append({"op": "ris.double_and_compress_batch", "in": [rng.choice(regs) for _ in range(n)]})
    # ---- scalar multiplication wrappers and batch double-and-compress with identity members
    ops.append({"op": "reset"})
    ops.append({"op": "ris.from_uniform_bytes", "in": [le(rng.getrandbits(512), 64)], "out": "P"})
    ops.append({"op": "ris.identity", "out": "O"})
    ops.append({"op": "ris.torsion_translate", "in": ["O"], "out": "O2", "k": 1})       # identity, other representative
    ops.append({"op": "ris.torsion_translate", "in": ["O"], "out": "O3", "k": 2})
    for s in (0, 1, L - 1, rng.randrange(L), rng.randrange(L)):
        ops.append({"op": rng.choice(["ris.mul", "ris.mul_rev", "ris.mul_assign"]), "in": ["P", le(s)], "out": "Q"})
        ops.append({"op": "ris.mul_base", "in": [le(s)], "out": "Q"})
        ops.append({"op": "ris.vartime_double_scalar_mul_basepoint", "in": [le(s), "P", le(rng.randrange(L))], "out": "Q"})
    ops.append({"op": "ris.basepoint", "out": "BP"})
    for base in ("P", "BP", "O2"):
        for s in (0, 1, L - 1, rng.randrange(L)):
            ops.append({"op": "ris.table", "in": [base, le(s)], "out": "Q", "needs_tables": True})
    for n in (0, 1, 2, 3, 5):
        names = []
        for i in range(n):
            ops.append({"op": "ris.from_uniform_bytes", "in": [le(rng.getrandbits(512), 64)], "out": "M%d" % i})
            names.append("M%d" % i)
        sc = [le(rng.randrange(L)) for _ in range(n)]
        for op in ("ris.multiscalar_mul", "ris.vartime_multiscalar_mul", "ris.optional_multiscalar_mul"):
            ops.append({"op": op, "scalars": sc, "points": names, "out": "Q"})
        if n:
            ops.append({"op": "ris.decompress", "in": [le(1)], "out": "NN"})
            ops.append({"op": "ris.optional_multiscalar_mul", "scalars": sc, "points": names[:-1] + ["NN"], "out": "Q"})
    for n in [0, 1, 2, 7, 16] + ([] if quick else [64]):
        names = [rng.choice(["P", "O", "O2", "O3"]) for _ in range(n)]
        ops.append({"op": "ris.double_and_compress_batch", "in": names})
    # equality of the wire types is equality of all 32 bytes (seeded change C06d-m2 ignored the last one): a random string
    # against itself and against the string with one bit flipped in each byte position
    for kind in ('ristretto',):
        a = rng.getrandbits(256)
        ops.append({"op": "enc.eq", "kind": kind, "in": [le(a), le(a)]})
        ops.append({"op": "enc.eq", "kind": kind, "in": [le(0), le(0)]})
        for j in range(32):
            ops.append({"op": "enc.eq", "kind": kind, "in": [le(a), le(a ^ (1 << (8 * j + rng.randrange(8))))]})
            ops.append({"op": "enc.eq", "kind": kind, "in": [le(0), le(1 << (8 * j + rng.randrange(8)))]})
    return ops


def run(ck):
    quick = ck.quick()
    ck.mc("MC_Ristretto", "MC_Ristretto_29.cfg", note="order-40 curve: l'=5 elements, all encodings, representatives, 65 536 map inputs", workers=8)
    ck.mc("MC_Ristretto", "MC_Ristretto_101.cfg", note="order-88 curve: l'=11", workers=8)
    if not quick:
        ck.mc("MC_Ristretto", "MC_Ristretto_109.cfg", note="order-104 curve: l'=13", workers=8)
    ck.mc("MC_ApiRis", "MC_ApiRis_29.cfg", note="Ristretto API histories (decode, one-way map, + - neg, change of representative by E[4]): representative in 2E, encoding = ghost, equality = ghost equality", workers=8)
    if not quick:
        ck.mc("MC_ApiRis", "MC_ApiRis_101.cfg", note="same on the order-88 curve", workers=8, timeout=3000)
    backends = ["s64", "s32", "v2"] if quick else ["s64", "s32", "f64", "f32", "v2", "v512"]
    # one build WITHOUT the precomputed-tables feature: ristretto.rs has cfg(not(feature = "precomputed-tables")) code of its own
    # (RistrettoPoint::mul_base falls back to a variable-base multiplication - seeded change C06d-m1 was in that branch)
    notab = ["s64"] if quick else ["s64", "s32", "v2"]
    bins = build_many([(b, True, "release", ()) for b in backends] + [(b, False, "release", ()) for b in notab], jobs=3)
    ops = gen(ck.rng, quick)
    sp = os.path.join(ck.workdir, "script.ndjson")
    write_script(sp, ops)
    traces = []
    for b in backends:
        cid = cfg_id(b)
        tp = os.path.join(ck.workdir, cid + ".trace.ndjson")
        run_driver(bins[cid], cid, sp, tp)
        traces.append((cid, tp))
    spn = os.path.join(ck.workdir, "script.notab.ndjson")
    write_script(spn, [o for o in ops if not o.get("needs_tables")])      # RistrettoBasepointTable does not exist in that build
    for b in notab:
        cid = cfg_id(b, False)
        tp = os.path.join(ck.workdir, cid + ".trace.ndjson")
        run_driver(bins[cid], cid, spn, tp)
        traces.append((cid, tp))
    ck.validate(traces)
    # how many of the decode inputs were accepted / rejected (non-vacuity of both outcomes)
    ev = read_trace(traces[0][1])
    ck.cov["decode_outcomes"] = dict(accepted=sum(1 for e in ev if e["op"] == "ris.decompress" and e["obs"].get("ok")),
                                     rejected=sum(1 for e in ev if e["op"] == "ris.decompress" and not e["obs"].get("ok")))
    ck.add_sample_events(traces[0][1], 4)
    ck.assumptions += ["BigNat.class / Hash.class overrides", "TLC/SANY", "tools/pyed.py only constructs inputs"]
    return ck.finish(rule="toy: all 256 strings, every point of 2E in all four coset representatives and several scalings, all 65 536 two-byte map inputs; "
                     "full size: every rejection class (s+p, bit 255, negative s, non-square, negative t, y=0) and valid encodings, structured map inputs, "
                     "histories with 4-torsion translates of the internal representative, batch double-and-compress with identity members; "
                     "distinct by (backend, op, operands)")
