"""C09 - verification accepts exactly the documented set.
TLC: MC_Ed25519 (accept set over all toy (A, k, S); uniqueness of the accepted encoding; strict).
Conformance: adversarial triples: torsion points in every encoding as A and R, mixed-order A/R satisfying the cofactorless
equation, S in [l, 2^256), single-bit corruptions, the repository's VALIDATIONVECTORS as inputs; with and without legacy_compatibility."""
import os
import json
from vlib import *
import pyed


THOROUGH_ROUNDS = 2      # repetitions of the conformance part in the thorough tier (fresh random draws each)
def torsion_encodings():
    out = []
    for k in range(8):
        pt = pyed.mul(k, pyed.T8)
        c = pyed.compress(pt)
        out.append(c)
        if pt[0] == 0:
            out.append(c[:31] + [c[31] ^ 0x80])                       # sign bit on x = 0
        y = pt[1]
        if y < 19:
            out.append(le(y + P))                                      # non-canonical y + p
            out.append(le((y + P) | (1 << 255)))
    return out


def mixed_order_triple(rng, tries=400):
    """(A', msg, sig) with A' = A + T, R' = R + T' of mixed order that satisfies the cofactorless equation"""
    seed = le(rng.getrandbits(256))
    a, prefix = pyed.expand(seed)
    A = pyed.mul(a % L, pyed.B)
    for _ in range(tries):
        t = rng.randrange(1, 8)
        T = pyed.mul(t, pyed.T8)
        A2 = pyed.add(A, T)
        msg = [rng.randrange(256) for _ in range(8)]
        r = rng.randrange(1, L)
        R = pyed.mul(r, pyed.B)
        for t2 in range(8):
            R2 = pyed.add(R, pyed.mul(t2, pyed.T8))
            k = pyed.challenge(pyed.compress(R2), pyed.compress(A2), msg)
            S = (r + k * a) % L
            # [S]B - [k]A2 = R - [k]T ; need = R2
            if pyed.add(R, pyed.neg(pyed.mul(k % 8, T))) == R2:
                return pyed.compress(A2), msg, pyed.compress(R2) + le(S)
    return None


def small_order_R_triple(rng, ph, ctx, tries=400):
    """(A', msg, sig): mixed-order key A' = [a]B + T, R' a NON-IDENTITY small-order point, S = k a, satisfying the cofactorless
    equation: accepted by the ordinary verifier, and exactly what the strict verifier exists to reject"""
    seed = le(rng.getrandbits(256))
    a, _ = pyed.expand(seed)
    A = pyed.mul(a % L, pyed.B)
    for _ in range(tries):
        T = pyed.mul(rng.randrange(1, 8), pyed.T8)
        A2 = pyed.add(A, T)
        msg = [rng.randrange(256) for _ in range(6)]
        for t2 in range(1, 8):
            R2 = pyed.mul(t2, pyed.T8)
            k = pyed.challenge(pyed.compress(R2), pyed.compress(A2), msg, ph, bytes(ctx))
            if pyed.neg(pyed.mul(k % 8, T)) == R2:             # [S]B - [k]A' = -[k]T
                return pyed.compress(A2), msg, pyed.compress(R2) + le(k * a % L)
    return None


def gen(rng, quick):
    ops = [{"op": "info"}]
    tors = torsion_encodings()
    seed = le(rng.getrandbits(256))
    pk = list(pyed.public(seed))
    msg = [1, 2, 3]
    sig = list(pyed.sign(seed, msg))
    R, S = sig[:32], from_le(sig[32:])
    # 1. S outside [0, l): the same signature with S + l, S + 2l ..., S + 2^253, top bits set
    for S2 in [S + L, S + 2 * L, S + 4 * L, S + 8 * L, S + 15 * L, L, L - 1, 2**253 - 1, (S % 2**253) + 2**253, S + 2**255, 2**256 - 1, 0, 1]:
        if 0 <= S2 < 2**256:
            ops.append({"op": "sig.verify", "in": [pk, msg, R + le(S2), []]})
    # 1b. honest signatures whose S is small, so that S + l, S + 2l ... have few high bits set: a range check that looks
    #     only at the top byte / top bits of S must still reject them (S + l < 2^252 + 2^248 here)
    for bound in (2**248, 2**250, 2**251):
        for t in range(400):
            m2 = [t % 256, t // 256, bound.bit_length() % 256]
            sg = list(pyed.sign(seed, m2))
            s0 = from_le(sg[32:])
            if s0 < bound - 2**200:
                for kmul in (1, 2, 3, 7):
                    if s0 + kmul * L < 2**256:
                        ops.append({"op": "sig.verify", "in": [pk, m2, sg[:32] + le(s0 + kmul * L), []], "small_s": True})
                ops.append({"op": "sig.verify", "in": [pk, m2, sg, []]})
                break
    # 2. non-canonical / alternative encodings of R for an honest signature
    for R2 in [R[:31] + [R[31] ^ 0x80], le((from_le(R) & (2**255 - 1)) + P if (from_le(R) & (2**255 - 1)) < 19 else from_le(R))]:
        ops.append({"op": "sig.verify", "in": [pk, msg, R2 + sig[32:], []]})
    # 3. small-order A and R in every encoding, S = 0 and S = honest
    for A in tors:
        for R2 in rng.sample(tors, 4 if quick else len(tors)):
            for S2 in (0, S, 1):
                m = [rng.randrange(256) for _ in range(4)]
                ops.append({"op": "sig.verify", "in": [A, m, R2 + le(S2), [1]]})
    # small-order R with an honest key, small-order key with an honest R
    for R2 in tors:
        ops.append({"op": "sig.verify", "in": [pk, msg, R2 + sig[32:], []]})
    for A in tors:
        ops.append({"op": "sig.verify", "in": [A, msg, sig, []]})
    # 4. mixed-order keys and R satisfying the cofactorless equation
    for _ in range(3 if quick else 20):
        t = mixed_order_triple(rng)
        if t:
            A2, m2, s2 = t
            ops.append({"op": "sig.verify", "in": [A2, m2, s2, []], "mixed": True})
            ops.append({"op": "sig.verify", "in": [A2, m2, s2[:32] + le(from_le(s2[32:]) + L), []]})
    # 4b. small-order non-identity R with a mixed-order key, pure and prehashed: ordinary accepts, strict must reject
    for ph, cx in ((False, []), (True, [7, 7]), (True, [])) * (1 if quick else 4):
        t = small_order_R_triple(rng, ph, cx)
        if t:
            ops.append({"op": "sig.verify", "in": [t[0], t[1], t[2], cx], "small_R": True})
    # 5. honest signatures with one bit flipped in each field (pure and prehashed)
    ctx = [4, 5]
    sigph = list(pyed.sign(seed, msg, True, bytes(ctx)))
    for i in rng.sample(range(512), 24 if quick else 200):
        s2 = list(sig); s2[i // 8] ^= 1 << (i % 8)
        ops.append({"op": "sig.verify", "in": [pk, msg, s2, []]})
        s3 = list(sigph); s3[i // 8] ^= 1 << (i % 8)
        ops.append({"op": "sig.verify", "in": [pk, msg, s3, ctx]})
    for i in rng.sample(range(256), 12 if quick else 100):
        k2 = list(pk); k2[i // 8] ^= 1 << (i % 8)
        ops.append({"op": "sig.verify", "in": [k2, msg, sig, []]})
    ops.append({"op": "sig.verify", "in": [pk, msg, sig, []]})
    ops.append({"op": "sig.verify", "in": [pk, msg, sigph, ctx]})
    for n in (0, 63, 65):
        ops.append({"op": "sig.verify", "in": [pk, msg, [3] * n, []]})
    # 6. the repository's validation vectors as inputs (expected results come from the specification)
    try:
        vv = json.load(open(os.path.join(REPO, "ed25519-dalek", "VALIDATIONVECTORS")))
    except Exception:
        vv = []
    for v in (vv if not quick else vv[:60]):
        ops.append({"op": "sig.verify", "in": [list(bytes.fromhex(v["key"])), list(v["msg"].encode()), list(bytes.fromhex(v["sig"])), []], "vv": v.get("number", -1)})
    return ops


def run(ck):
    quick = ck.quick()
    ck.mc("MC_Ed25519", "MC_Ed25519_29.cfg", note="accept set over all toy (A, k, S); no second encoding; strict subset", workers=8)
    specs = [("s64", True, ()), ("v2", True, ()), ("s64", True, ("ed_legacy",)), ("v2", True, ("ed_legacy",))]
    if not quick:
        specs += [(b, True, ()) for b in ("s32", "f64", "f32", "v512")] + [("s64", False, ()), ("v2", False, ("ed_legacy",))]
    bins = build_many([(b, t, "release", f) for b, t, f in specs], jobs=3)
    ops = gen(ck.rng, quick)
    sp = os.path.join(ck.workdir, "script.ndjson")
    write_script(sp, ops)
    traces = []
    for b, t, f in specs:
        cid = cfg_id(b, t, "release", f)
        tp = os.path.join(ck.workdir, cid + ".trace.ndjson")
        run_driver(bins[cid], cid, sp, tp)
        traces.append((cid, tp))
    ck.validate(traces)
    out = {}
    for lab, tp in traces[:4]:
        ev = [e for e in read_trace(tp) if e["op"] == "sig.verify" and e["obs"].get("key_ok") and e["obs"].get("sig_ok")]
        out[lab] = dict(accepted=sum(1 for e in ev if e["obs"]["verify"]), rejected=sum(1 for e in ev if not e["obs"]["verify"]),
                        strict_accepted=sum(1 for e in ev if e["obs"]["strict"]),
                        mixed_order_accepted=sum(1 for e in ev if e.get("mixed") and e["obs"]["verify"]))
    ck.cov["outcomes"] = out
    ck.add_sample_events(traces[0][1], 4, pred=lambda e: e["op"] == "sig.verify")
    ck.assumptions += ["SHA-512 = MessageDigest", "BigNat.class", "TLC/SANY", "tools/pyed.py searches for adversarial inputs only"]
    return ck.finish(rule="toy: all 256 key encodings x all challenges x all 256 S bytes; full size: S in {l, S+l, S+2l .., 2^253-1, S+2^255, 2^256-1}, the eight "
                     "torsion points in every (non-)canonical encoding as A and as R, mixed-order A and R satisfying the cofactorless equation, single-bit "
                     "corruptions of R, S, A, the repository's validation vectors; builds with and without legacy_compatibility; distinct by (build, A, M, sig)")
