"""C02 - scalar arithmetic is exact and canonical.
TLC: MC_Scalar on three toy orders (all pairs, all wide inputs, generic Montgomery layer), scalar inversion chain.
Conformance: every public scalar constructor/operator on s64 and s32 (+fiat/vector builds share the files)."""
import os
from vlib import *


THOROUGH_ROUNDS = 2      # repetitions of the conformance part in the thorough tier (fresh random draws each)
def specials_256():
    s = set()
    for k in range(0, 16):
        for d in (-2, -1, 0, 1, 2):
            v = k * L + d
            if 0 <= v < 2**256:
                s.add(v)
    for j in list(range(52, 256, 52)) + list(range(29, 256, 29)) + [252, 253, 254, 255]:
        for d in (-2, -1, 0, 1, 2):
            v = 2**j + d
            if 0 <= v < 2**256:
                s.add(v)
    s |= {2**256 - 1, 2**256 - 2, L - 1, (L - 1) // 2, (L + 1) // 2, 2**252, 2**252 - 1, 2**255 - 19, 2**255 - 1,
          int("0f" * 32, 16), int("ff" * 26 + "00" * 6, 16), sum(((1 << 52) - 1) << (52 * i) for i in range(4)),
          sum(((1 << 29) - 1) << (29 * i) for i in range(8))}
    return sorted(s)


def specials_512(rng):
    s = set()
    for j in [0, 1, 52, 104, 252, 253, 255, 256, 257, 260, 261, 312, 364, 416, 468, 504, 510, 511]:
        for d in (-1, 0, 1):
            v = 2**j + d
            if 0 <= v < 2**512:
                s.add(v)
    s |= {2**512 - 1, L * L, L * L - 1, L * (2**256 - 1), (L - 1) << 256, L << 256, (2**256 - 1) << 256, 2**256 - 1,
          (2**260) % (2**512), 2**260 * L, int("ff" * 32 + "00" * 32, 16)}
    for k in range(4000):                      # low 260 bits just below 2^260, high part large: the reducer's input bound
        lo = 2**260 - 1 - rng.getrandbits(rng.choice([8, 64, 200, 250, 251]))
        hi = rng.choice([2**252 - 1 - rng.getrandbits(rng.choice([8, 100, 200, 250])), rng.getrandbits(252), 2**252 - 1])
        s.add((hi << 260) | lo)
    for k in range(20):
        s.add(rng.getrandbits(256))            # high half zero
        s.add(rng.getrandbits(256) << 256)     # low half zero
        s.add(rng.randrange(0, 16) * L + rng.randrange(-2, 3) + (rng.getrandbits(100) * L << 100))
    return sorted(x for x in s if 0 <= x < 2**512)


def gen(rng, quick):
    ops = [{"op": "info"}]
    N = 1 if quick else 8
    sp = specials_256()

    def sc(reg, v):
        ops.append({"op": "sc.from_bytes_mod_order", "in": [le(v)], "out": reg})

    # constructors
    for v in sp:
        ops.append({"op": "sc.from_bytes_mod_order", "in": [le(v)], "out": "A"})
        ops.append({"op": "sc.from_canonical_bytes", "in": [le(v)], "out": "B"})
        ops.append({"op": "sc.reencode", "in": ["A"], "out": "A2"})
    for v in specials_512(rng):
        ops.append({"op": "sc.from_bytes_mod_order_wide", "in": [le(v, 64)], "out": "A"})
    for _ in range(150 * N):
        ops.append({"op": "sc.from_bytes_mod_order", "in": [le(rng.getrandbits(256))], "out": "A"})
        ops.append({"op": "sc.from_bytes_mod_order_wide", "in": [le(rng.getrandbits(512), 64)], "out": "B"})
        ops.append({"op": "sc.from_canonical_bytes", "in": [le(rng.getrandbits(rng.choice([250, 252, 253, 254, 256])))], "out": "C"})
    for v in (0, 2**512 - 1, L, rng.getrandbits(512), rng.getrandbits(512)):
        ops.append({"op": "rng.scalar", "in": [le(v, 64)], "out": "A"})
    for n in (0, 1, 2, 55, 56, 111, 112, 113, 127, 128, 129, 200, 1000):
        m = [rng.randrange(256) for _ in range(n)]
        ops.append({"op": "sc.hash_from_bytes", "in": [m], "out": "A"})
        ops.append({"op": "sc.from_hash", "in": [m], "out": "B"})
    for w in (1, 2, 4, 8, 16):
        for v in (0, 1, 2**(8 * w) - 1, 2**(8 * w - 1), rng.getrandbits(8 * w)):
            ops.append({"op": "sc.from_uint", "in": [le(v, w)], "out": "A"})
    for _ in range(30):
        ops.append({"op": "sc.clamp_integer", "in": [le(rng.getrandbits(256))]})
    for v in (0, 2**256 - 1, 7, 2**255, 2**254):
        ops.append({"op": "sc.clamp_integer", "in": [le(v)]})

    # binary operators over special x special (sampled) and random pairs
    binops = ["sc.add", "sc.sub", "sc.mul", "sc.add_assign", "sc.sub_assign", "sc.mul_assign", "sc.add_owned", "sc.sub_owned", "sc.mul_owned"]
    red = sorted({v % L for v in sp})
    pairs = [(rng.choice(red), rng.choice(red)) for _ in range(250 * N)]
    pairs += [(rng.randrange(L), rng.randrange(L)) for _ in range(250 * N)]
    for a in (0, 1, L - 1, (L - 1) // 2, (L + 1) // 2):
        for b in (0, 1, L - 1, (L - 1) // 2, (L + 1) // 2):
            pairs.append((a, b))
    for _ in range(40 * N):                   # products congruent to -1, 0, 1
        a = rng.randrange(1, L)
        ai = pow(a, -1, L)
        pairs += [(a, ai), (a, L - ai), (a, 0)]
    for a, b in pairs:
        sc("A", a)
        sc("B", b)
        for op in (binops if rng.random() < 0.15 else rng.sample(binops, 3)):
            ops.append({"op": op, "in": ["A", "B"], "out": "C"})
        ops.append({"op": rng.choice(["sc.neg", "sc.neg_owned"]), "in": ["C"], "out": "D"})
        if rng.random() < 0.2:
            ops.append({"op": "sc.eq", "in": ["A", "B"]})
            ops.append({"op": "sc.eq", "in": ["A", "A"]})
            ops.append({"op": "sc.cond_select", "in": ["A", "B"], "out": "D", "c": rng.random() < 0.5})
    # every special value as either operand of every operator against a small fixed set (borrow / carry chains that
    # only start at an all-ones or all-zero limb need a specific partner)
    fixed = [0, 1, L - 1, 2**52, 2**104, 2**156, 2**208, 2**29, 2**116, 2**232, (L - 1) // 2]
    for v in red:
        sc("A", v)
        for w in fixed:
            sc("B", w % L)
            ops.append({"op": "sc.sub", "in": ["B", "A"], "out": "C"})
            ops.append({"op": "sc.sub", "in": ["A", "B"], "out": "C"})
        ops.append({"op": "sc.add", "in": ["A", "B"], "out": "C"})
        ops.append({"op": "sc.mul", "in": ["A", "B"], "out": "C"})
        ops.append({"op": "sc.neg", "in": ["A"], "out": "C"})
    sc("Z", 0)
    ops.append({"op": "sc.neg", "in": ["Z"], "out": "D"})
    # inversion
    for a in [1, 2, L - 1, (L - 1) // 2, (L + 1) // 2, 2**252, 2**252 - 1] + [rng.randrange(1, L) for _ in range(60 * N)]:
        sc("A", a % L)
        ops.append({"op": "sc.invert", "in": ["A"], "out": "B"})
    # sums, products, batch inversion for n = 0..64
    for n in list(range(0, 10)) + [16, 33, 64] + ([] if quick else [100, 257]):
        regs = []
        for j in range(n):
            rn = "V%d" % j
            sc(rn, rng.choice([1, L - 1, rng.randrange(1, L), rng.randrange(1, L)]))
            regs.append(rn)
        ops.append({"op": "sc.sum", "in": regs, "out": "S"})
        ops.append({"op": "sc.product", "in": regs, "out": "S"})
        ops.append({"op": "sc.batch_invert", "in": regs})
    # short batches of GENERIC elements (1 and -1 are their own inverses: a batch of one such element says nothing
    # about a short-batch special case - seeded change C02d-m1)
    for n in (1, 1, 2, 2, 3, 4):
        regs = []
        for j in range(n):
            sc("W%d" % j, rng.randrange(2, L - 1))
            regs.append("W%d" % j)
        ops.append({"op": "sc.batch_invert", "in": regs})
        ops.append({"op": "sc.product", "in": regs, "out": "S"})
    return ops


def run(ck):
    quick = ck.quick()
    for c in ("29", "101", "109"):
        ck.mc("MC_Scalar", "MC_Scalar_%s.cfg" % c, note="Z/l' for toy curve %s: all pairs of byte strings, all 2-byte wide inputs" % c, workers=8)
    ck.mc("MC_ExpChain", "MC_ExpChain.cfg", note="scalar inversion chain ends at l-2 (full size)", workers=1)
    ck.mc("Mul29", "MC_Mul29.cfg", note="Scalar29::mul_internal (Karatsuba with wrapping words) and square_internal equal the schoolbook coefficients: bilinear / quadratic forms agree on all 81 basis pairs", workers=2)
    if not quick:
        ck.apalache("AP_ScalarSub52", 2, "Scalar52::sub = (a - b) mod l for ALL reduced 52-bit-limb operands (borrow chain + masked add-back)", cinit="CSub", timeout=1500)
        ck.apalache("AP_ScalarSub52", 2, "Scalar52::add = (a + b) mod l for ALL reduced operands", cinit="CAdd", timeout=1500)
        ck.apalache("AP_MontReduce52", 2, "Scalar52::montgomery_reduce: r < l and r * 2^260 = T (mod l), no u128 overflow, for ALL nine-limb inputs with T < l * 2^260", cinit="CIn", timeout=2400)
        ck.apalache("AP_ScalarSub29", 2, "Scalar29::sub = (a - b) mod l for ALL reduced 29-bit-limb operands (u32 borrow chain + masked add-back)", cinit="CSub", timeout=1500)
        ck.apalache("AP_ScalarSub29", 2, "Scalar29::add = (a + b) mod l for ALL reduced operands", cinit="CAdd", timeout=1500)
        ck.apalache("AP_MontReduce29", 2, "Scalar29::montgomery_reduce: r < l and r * 2^261 = T (mod l), no u64 overflow, for ALL seventeen-limb inputs with T < l * 2^261 (about 40 min)", cinit="CIn", timeout=5400)
    ck.apalache("AP_MontReduce52", 2, "kept counterexample: just above the documented input bound one conditional subtraction is not enough", cinit="COver", expect_violation=True)
    if not quick:
        pass
    backends = ["s64", "s32"] if quick else ["s64", "s32", "f64", "f32", "v2"]
    # ".nz": built without the zeroize feature (batch_invert has a cfg(feature = "zeroize") site in its body)
    specs = [(b, ()) for b in backends] + [("s64", ("nz",))]
    bins = build_many([(b, True, "release", f) for b, f in specs], jobs=3)
    traces = []
    ops = gen(ck.rng, quick)
    sp = os.path.join(ck.workdir, "script.ndjson")
    write_script(sp, ops)
    spz = os.path.join(ck.workdir, "script.nz.ndjson")
    write_script(spz, nz_filter(ops))
    for b, f in specs:
        cid = cfg_id(b, True, "release", f)
        tp = os.path.join(ck.workdir, cid + ".trace.ndjson")
        run_driver(bins[cid], cid, spz if f else sp, tp)
        traces.append((cid, tp))
    ck.validate(traces)
    for lab, tp in traces[:2]:
        ck.add_sample_events(tp, 3)
    ck.assumptions += ["BigNat.class / Hash.class overrides (BigInteger, MessageDigest SHA-512)", "TLC/SANY"]
    return ck.finish(rule="toy: every pair of one-byte strings and every two-byte wide input for l' in {5,11,13}; full size: "
                     "k*l+d (k<16,|d|<=2), 2^j+-d at limb boundaries of both backends, all-ones limbs, products = -1/0/1, halves zero, "
                     "seeded random; every operator form (borrowed, owned, assigning); distinct by (backend, op, operand bytes)")
