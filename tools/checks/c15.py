"""C15 - untrusted input never panics; decoders and verifiers are total.
TLC: the toy models of C03/C06/C07 already assign every byte string an outcome for every decoder (MC_Edwards, MC_Ristretto,
MC_Montgomery incl. the Elligator map never producing a rejected point); this check re-runs the encoding parts.
Conformance: every entry point that consumes untrusted bytes, slices of every length 0..96 and 1000, random strings and the
algebraically exceptional inputs; each event carries the panic field and the specified outcome (None / Err / value)."""
import os
from vlib import *
import pyed


THOROUGH_ROUNDS = 4      # repetitions of the conformance part in the thorough tier (fresh random draws each)
def gen(rng, quick):
    ops = [{"op": "info"}]
    lens = list(range(0, 97)) + [1000]
    for n in lens:
        b = [rng.randrange(256) for _ in range(n)]
        ops.append({"op": "ed.from_slice", "in": [b], "out": "E"})
        ops.append({"op": "ris.from_slice", "in": [b], "out": "R"})
        ops.append({"op": "tot.vk_from_slice", "in": [b]})
        ops.append({"op": "tot.sig_from_slice", "in": [b]})
        ops.append({"op": "sig.sk_from_slice", "in": [b]})
        ops.append({"op": "sc.hash_from_bytes", "in": [b], "out": "S"})
        ops.append({"op": "ris.hash_from_bytes", "in": [b], "out": "R"})
        ops.append({"op": "tot.ed_nonspec_map", "in": [b], "out": "E"})
    # exceptional 32-byte inputs for every decoder
    exc = [0, 1, 2, P - 1, P, P + 1, 2**255 - 1, 2**255, 2**255 + 1, 2**255 + P - 1, 2**256 - 1, 2**256 - 20, (P - 1) // 2, (P + 1) // 2, L, L - 1,
           pyed.SQRT_M1, P - pyed.SQRT_M1, 486662, P - 486662, 121665, 121666, 9]
    exc += [pyed.compress(pyed.mul(k, pyed.T8)) for k in range(8)]
    exc = [le(x) if isinstance(x, int) else x for x in exc] + [le(rng.getrandbits(256)) for _ in range(60 if quick else 600)]
    for b in exc:
        ops.append({"op": "ed.decompress", "in": [b], "out": "E"})
        ops.append({"op": "ris.decompress", "in": [b], "out": "R"})
        ops.append({"op": "sc.from_canonical_bytes", "in": [b], "out": "S"})
        ops.append({"op": "sc.from_bytes_mod_order", "in": [b], "out": "S"})
        ops.append({"op": "tot.vk_from_slice", "in": [b]})
        ops.append({"op": "tot.x_public", "in": [b]})
        ops.append({"op": "x.x25519", "in": [le(rng.getrandbits(256)), b]})
        ops.append({"op": "x.x25519", "in": [b, b]})
        for sign in (0, 1):
            ops.append({"op": "mont.to_edwards", "in": [b], "sign": sign, "out": "E"})
        ops.append({"op": "mont.mul", "in": [b, le(rng.getrandbits(255))]})
        ops.append({"op": "sig.keygen", "in": [b]})
        ops.append({"op": "sig.verify", "in": [b, [1, 2, 3], b + b, []]})
        ops.append({"op": "sig.verify", "in": [b, [], le(rng.getrandbits(512), 64), [1] * 300]})
        ops.append({"op": "sig.from_keypair_bytes", "in": [b + b]})
        ops.append({"op": "x.dh", "in": [b, b], "kind": rng.choice(["ephemeral", "reusable", "static"])})
        ops.append({"op": "ris.from_uniform_bytes", "in": [b + b], "out": "R"})
        ops.append({"op": "sc.from_bytes_mod_order_wide", "in": [b + b], "out": "S"})
        # Elligator preimages: the hash is not invertible, so the exceptional field elements are fed to the Ristretto
        # map (which takes them directly) and the Edwards map is covered by volume and by the toy model
    for n in (0, 1, 2, 5):
        ents = [[le(rng.getrandbits(256)), [rng.randrange(256) for _ in range(3)], le(rng.getrandbits(512), 64)] for _ in range(n)]
        ops.append({"op": "sig.verify_batch", "entries": ents})
    sd = le(rng.getrandbits(256))
    good = [list(pyed.public(sd)), [1], list(pyed.sign(sd, [1]))]
    for bad in ([good[0], [1], le(2**512 - 1, 64)], [good[0], [1], le(2, 32) + good[2][32:]], [good[0], [1], good[2][:32] + le(L)]):
        ops.append({"op": "sig.verify_batch", "entries": [good, bad]})
        ops.append({"op": "sig.verify_batch", "entries": [bad]})
    for lens in ([1, 2, 2], [2, 1, 2], [2, 2, 1], [1, 1, 2], [0, 0, 1], [2, 2, 0], [0, 2, 2]):
        ops.append({"op": "sig.verify_batch", "entries": [good, good], "lens": lens})
    # multiscalar with None inputs and empty inputs
    ops.append({"op": "reset"})
    ops.append({"op": "ed.decompress", "in": [le(2)], "out": "NN"})
    ops.append({"op": "ed.basepoint", "out": "B"})
    ops.append({"op": "ed.optional_multiscalar_mul", "scalars": [le(1), le(2)], "points": ["B", "NN"], "out": "R"})
    ops.append({"op": "ed.optional_multiscalar_mul", "scalars": [], "points": [], "out": "R"})
    ops.append({"op": "ed.multiscalar_mul", "scalars": [], "points": [], "out": "R"})
    ops.append({"op": "ed.vartime_multiscalar_mul", "scalars": [], "points": [], "out": "R"})
    return ops


def run(ck):
    quick = ck.quick()
    ck.mc("MC_Edwards", "MC_Edwards_29.cfg", note="every one-byte string has an outcome under Edwards decompression", workers=8)
    ck.mc("MC_Ristretto", "MC_Ristretto_29.cfg", note="every string / every 2-byte map input has an outcome", workers=8)
    ck.mc("MC_Montgomery", "MC_Montgomery_29.cfg", note="to_edwards total; Elligator2 output is never rejected (the expect() cannot fire)", workers=8)
    specs = [("s64", True), ("v2", True), ("s32", True), ("s64", False)] if quick else [(b, True) for b in ALL_BACKENDS] + [("s64", False)]
    # the property is not limited to release builds: one build with overflow checks and debug assertions runs the same script
    specs = [(b, t, "release") for b, t in specs] + [("s64", True, "checked")] + ([] if quick else [("v2", True, "checked")])
    bins = build_many([(b, t, p, ()) for b, t, p in specs], jobs=3)
    ops = gen(ck.rng, quick)
    sp = os.path.join(ck.workdir, "script.ndjson")
    write_script(sp, ops)
    traces = []
    for b, t, p in specs:
        cid = cfg_id(b, t, p)
        tp = os.path.join(ck.workdir, cid + ".trace.ndjson")
        run_driver(bins[cid], cid, sp, tp)
        traces.append((cid, tp))
    ck.validate(traces)
    ev = read_trace(traces[0][1])
    ck.cov["panics_observed"] = sum(1 for e in ev if e["panic"])
    ck.cov["entry_points"] = sorted({e["op"] for e in ev})
    ck.add_sample_events(traces[0][1], 4, pred=lambda e: len(json.dumps(e)) < 1500 and e["op"] not in ("info", "reset"))
    ck.assumptions += ["catch_unwind around every call in the driver", "BigNat.class / Hash.class", "TLC/SANY"]
    return ck.finish(rule="every decoding / verifying / mapping entry point x slices of every length 0..96 and 1000, random 32/64-byte strings and the exceptional values "
                     "(0, +-1, p, p+-1, 2^255-1, sqrt(-1), +-A, torsion encodings, l); distinct by (build, op, input bytes); outcome and absence of panic judged by the specification")


import json
