"""C10 - no secret-dependent control flow or memory addressing.
This is a property of the compiled artefact; the specification contributes the secrecy policy, the acceptance rule and the
mechanism models (Leakage.tla: self-composition over toy secrets, kept counterexamples for the leaky variants).
Conformance: (1) memcheck secret taint: the secret bytes of each operation are marked undefined; any conditional jump / address
depending on them between the markers is a CANDIDATE; (2) lock-step comparison of the literal observation the property names -
the instruction-address and data-address sequence between the markers (valgrind lackey) for several secrets - confirms or refutes
each candidate and is also run unconditionally on a subset (thorough: all) of the operations; (3) the same lock-step comparison on the
NATIVE instruction stream (ptrace single-step between int3 markers, tools/stepper.c) for the AVX-512 IFMA build, which valgrind cannot run."""
import hashlib
import json
import os
import subprocess
from vlib import *

THOROUGH_ROUNDS = 1      # repetitions of the conformance part in the thorough tier (fresh random draws each)
LEVEL = "exploration"

TARGETS = ["sc.from_bytes_mod_order", "sc.from_bytes_mod_order_wide", "sc.add", "sc.sub", "sc.mul", "sc.neg", "sc.invert", "sc.batch_invert",
           "ed.mul_base", "ed.mul", "ed.mul_clamped", "ed.multiscalar_mul", "ed.secret_point_ops", "mont.mul", "x.x25519", "x.dh_static",
           "ris.from_uniform_bytes", "ris.secret_point_ops", "ris.compress_secret", "ris.batch_compress_secret", "ed.compress_secret", "ris.mul", "ris.multiscalar_mul", "sig.keygen", "sig.sign", "sig.sign_prehashed"]
VARTIME = ["vt.ed.vartime_multiscalar_mul", "vt.ed.vartime_double_scalar_mul_basepoint"]
NSEC = 7
NCONF = 16        # secrets used to reproduce a taint report (algebraic boundary values first)
import pyed


def pad(b, n=64):
    b = list(b)
    return (b + [0] * n)[:n]


def boundary_secrets(target):
    """secret values at which special cases of the arithmetic live: 0, +-1, l, p, and - for the one-way map, whose secret is
    a field element r_0 read from the first 32 bytes after the driver's masking w[i] = sec[i] ^ 3i - the r_0 that make the
    denominator of the Elligator map vanish (r_0^2 = i*d or i/d)"""
    P, Lo = pyed.P, pyed.L
    vals = [0, 1, Lo - 1, Lo, Lo + 1, 2, P - 1, P, 2**252, 2**255 - 1, 8, Lo - 2]
    out = [pad(le(v)) for v in vals]
    if target == "ris.from_uniform_bytes":
        sp = []
        for num, den in ((pyed.SQRT_M1 * pyed.D % P, 1), (pyed.SQRT_M1, pyed.D)):
            ok, r = pyed.sqrt_ratio(num, den)
            if ok:
                sp += [r, P - r]
        for r in sp + [0, 1, P - 1]:
            enc = le(r)
            out.insert(0, pad([enc[i] ^ ((3 * i) & 255) for i in range(32)] + [(3 * i) & 255 for i in range(32, 64)]))
    return out


def secrets(rng, n=64, target="", count=None):
    """secrets of n bytes: structured (all-zero, all-ones, single bits, l - 1; target-specific boundary values) and random"""
    count = count or NSEC
    s = [[0] * n, [255] * n, [1] + [0] * (n - 1), [0] * (n - 1) + [64], pad(le(pyed.L - 1), n)]
    if target == "ris.from_uniform_bytes":
        s[3] = boundary_secrets(target)[0]
    if count > NSEC:
        for b in boundary_secrets(target):
            if b not in s and len(s) < count - 2:
                s.append(b)
    while len(s) < count:
        s.append([rng.randrange(256) for _ in range(n)])
    return s


def script(rng, targets, count=None):
    ops = [{"op": "ct.info"}]
    pub = [rng.randrange(256) for _ in range(32)]
    for t in targets:
        ops.append({"op": "ct.run", "target": t, "in": [secrets(rng, 64, t, count), pub]})
    return ops


def lackey_windows(binp, cid, sp, sel, marker_addr, workdir):
    """run the driver under lackey; return, per ct.run window, (events, digest, first 3 block digests)"""
    env = dict(os.environ, VERIF_CT_SEL=str(sel))
    tp = os.path.join(workdir, "lk.trace.ndjson")
    p = subprocess.Popen(["valgrind", "--tool=lackey", "--trace-mem=yes", "--log-fd=2", binp, cid, sp, tp], env=env,
                         stdout=subprocess.DEVNULL, stderr=subprocess.PIPE, text=True, bufsize=1 << 20)
    mark = " M %s,8" % marker_addr
    wins, cur, inside = [], None, False
    for line in p.stderr:
        if line.startswith(mark):
            if not inside:
                inside, cur = True, [0, hashlib.sha256(), [], hashlib.sha256()]
            else:
                inside = False
                wins.append((cur[0], cur[1].hexdigest(), cur[2]))
            continue
        if inside:
            cur[0] += 1
            b = line.encode()
            cur[1].update(b)
            cur[3].update(b)
            if cur[0] % 4096 == 0:            # digest per block of 4096 events: locates the first divergence
                if len(cur[2]) < 100000:
                    cur[2].append(cur[3].hexdigest()[:12])
                cur[3] = hashlib.sha256()
    p.wait()
    if p.returncode != 0:
        raise ToolError("lackey run failed (rc=%d)" % p.returncode)
    return wins


def lockstep(ck, binp, cid, targets, label, marker, nsec=None):
    """compare the instruction+address sequences between the markers for nsec secrets; returns {target: divergence or None}"""
    nsec = nsec or NSEC
    wd = os.path.join(ck.workdir, "lk_" + label)
    os.makedirs(wd, exist_ok=True)
    sp = os.path.join(wd, "script.ndjson")
    write_script(sp, script(ck.rng, targets, nsec))
    # marker address: as reported by ct.info under valgrind (a native run would be subject to ASLR)
    marker = marker.rjust(8, "0")
    with ThreadPoolExecutor(max_workers=min(nsec, 8)) as ex:
        runs = list(ex.map(lambda k: lackey_windows(binp, cid, sp, "0123456789abcdefghijklmnopqrstuvwxyz"[k], marker, wd + "/%d" % k if os.makedirs(wd + "/%d" % k, exist_ok=True) is None else wd), range(nsec)))
    res = {}
    for i, t in enumerate(targets):
        ws = [r[i] for r in runs if i < len(r)]
        if len(ws) != nsec:
            raise ToolError("lackey window missing for " + t)
        div = None
        for k in range(1, nsec):
            if ws[k][1] != ws[0][1]:
                blk = next((j for j, (a, b) in enumerate(zip(ws[0][2], ws[k][2])) if a != b), min(len(ws[0][2]), len(ws[k][2])))
                div = dict(secret_a=0, secret_b=k, events_a=ws[0][0], events_b=ws[k][0], first_divergent_block_of_4096=blk)
                break
        res[t] = dict(events=ws[0][0], divergence=div)
    return res


def native_lockstep(ck, stepper, binp, cid, targets):
    """single-step the native binary between the markers (tools/stepper.c) for NSEC secrets and compare the instruction-address
    sequences; this is the only observation available for the AVX-512 IFMA build.  Returns {target: dict(steps, divergence)}"""
    wd = os.path.join(ck.workdir, "st_" + cid)
    os.makedirs(wd, exist_ok=True)
    sp = os.path.join(wd, "script.ndjson")
    write_script(sp, script(ck.rng, targets))

    def one(k):
        outp = os.path.join(wd, "win%d.ndjson" % k)
        env = dict(os.environ, VERIF_CT_SEL="0123456789abcdefghijklmnopqrstuvwxyz"[k], VERIF_CT_TRAP="1")
        r = subprocess.run([stepper, outp, binp, cid, sp, os.path.join(wd, "trace%d.ndjson" % k)], env=env, stdout=subprocess.DEVNULL, stderr=subprocess.PIPE, text=True, timeout=3000)
        if r.returncode != 0:
            raise ToolError("stepper run failed for %s (rc=%d): %s" % (cid, r.returncode, r.stderr[-300:]))
        return [json.loads(x) for x in open(outp)]
    with ThreadPoolExecutor(max_workers=NSEC) as ex:
        runs = list(ex.map(one, range(NSEC)))
    res = {}
    for i, t in enumerate(targets):
        ws = [r[i] for r in runs if i < len(r)]
        if len(ws) != NSEC:
            raise ToolError("stepper window missing for " + t)
        div = None
        for k in range(1, NSEC):
            if ws[k]["digest"] != ws[0]["digest"] or ws[k]["steps"] != ws[0]["steps"]:
                blk = next((j for j, (a, b) in enumerate(zip(ws[0]["blocks"], ws[k]["blocks"])) if a != b), min(len(ws[0]["blocks"]), len(ws[k]["blocks"])))
                div = dict(secret_a=0, secret_b=k, steps_a=ws[0]["steps"], steps_b=ws[k]["steps"], first_divergent_block_of_4096=blk)
                break
        res[t] = dict(steps=ws[0]["steps"], divergence=div)
    return res


def e_reports(runs, t):
    return [e["obs"]["reports"] for e in runs if e["target"] == t]


def run(ck):
    quick = ck.quick()
    ck.mc("MC_Leakage", "MC_Leakage_noninterference.cfg", note="self-composition: select scan, branch-free recoding, ladder cswap, masked add-back, conditional negate, sqrt_ratio_i, batch inversion", workers=4)
    for c in ("leakyselect", "leakynaf", "leakyladder", "leakysub", "leakysqrt", "leakybatchinv"):
        ck.mc("MC_Leakage", "MC_Leakage_%s.cfg" % c, note="kept counterexample (leaky variant rejected)", workers=2, expect_violation=True)
    backends = ["s64", "s32", "v2"] if quick else ["s64", "s32", "f64", "f32", "v2"]
    bins = build_many([(b, True, "release", ()) for b in backends], jobs=3)
    windows, candidates, confirmed, unconfirmed, samples = 0, [], [], [], []
    for b in backends:
        cid = cfg_id(b)
        # (1) memcheck secret taint, exact definedness
        sp = os.path.join(ck.workdir, cid + ".ct.script.ndjson")
        tp = os.path.join(ck.workdir, cid + ".ct.trace.ndjson")
        write_script(sp, script(ck.rng, TARGETS + VARTIME))
        r = subprocess.run(["valgrind", "-q", "--expensive-definedness-checks=yes", "--log-file=" + os.path.join(ck.workdir, cid + ".memcheck.log"), bins[cid], cid, sp, tp],
                           stdout=subprocess.PIPE, stderr=subprocess.PIPE, text=True, timeout=1800)
        if r.returncode != 0:
            raise ToolError("memcheck run failed for %s: %s" % (cid, r.stderr[-500:]))
        ev = read_trace(tp)
        if not ev[0]["obs"].get("valgrind"):
            raise ToolError("client requests were not recognised (not running under valgrind)")
        v = validate_trace(tp, os.path.join(ck.workdir, "tv_" + cid))
        ck.traces += 1
        ck.events += v["events"]
        runs = [e for e in ev if e["op"] == "ct.run"]
        windows += len(runs)
        for e in runs:
            if e["target"] in VARTIME and e["obs"]["reports"] == 0:
                raise ToolError("instrument is blind: the variable-time operation %s raised no report" % e["target"])
        cands = [bd["why"]["candidate"] for bd in v["bad"] if isinstance(bd.get("why"), dict) and "candidate" in bd["why"]]
        other = [bd for bd in v["bad"] if not (isinstance(bd.get("why"), dict) and "candidate" in bd["why"])]
        for bd in other:
            ck.add_violation("%s %s" % (cid, bd.get("op")), dict(mismatch=bd, trace=tp))
        # taint reports per operation, incl. those beyond the bounded mismatch list
        cands = sorted({e["target"] for e in runs if e["target"] not in VARTIME and e["obs"]["reports"] > 0})
        candidates += [(cid, c) for c in cands]
        # (2) lock-step instruction + address traces: every candidate, plus a rotating subset (thorough: everything)
        if quick:
            k = ck.seed % len(TARGETS)
            subset = [TARGETS[(k + 5 * j) % len(TARGETS)] for j in range(6)]
        else:
            subset = list(TARGETS)
        todo = sorted(set(cands) | set(subset), key=TARGETS.index)
        res = lockstep(ck, bins[cid], cid, todo + [VARTIME[1]], cid, ev[0]["obs"]["marker_addr"])
        # a taint report that the standard secrets do not reproduce: try again with the algebraic boundary values
        again = [t for t in cands if res[t]["divergence"] is None]
        if again:
            res2 = lockstep(ck, bins[cid], cid, again, cid + "_confirm", ev[0]["obs"]["marker_addr"], nsec=NCONF)
            for t in again:
                if res2[t]["divergence"] is not None:
                    res[t] = res2[t]
                    res[t]["confirm_script"] = os.path.join(ck.workdir, "lk_" + cid + "_confirm", "script.ndjson")
        if res[VARTIME[1]]["divergence"] is None:
            raise ToolError("lock-step comparison is blind: the variable-time operation did not diverge")
        for t in todo:
            windows += NSEC
            d = res[t]["divergence"]
            samples.append(dict(cfg=cid, target=t, events_between_markers=res[t]["events"], secrets=NSEC, divergence=d))
            if d is not None:
                confirmed.append((cid, t))
                ck.add_violation("%s: instruction/address trace of %s depends on the secret" % (cid, t), dict(cfg=cid, target=t, divergence=d, script=os.path.join(ck.workdir, "lk_" + cid, "script.ndjson"),
                                 how_to_replay="VERIF_CT_SEL=<a|b> valgrind --tool=lackey --trace-mem=yes driver %s <script> <trace>" % cid))
            elif t in cands:
                # memcheck saw a conditional jump or an address computed from the secret bytes, but the instruction / address
                # sequence is the same for every secret tried, boundary values included.  That is what a branch whose outcome is
                # an invariant looks like - e.g. `assert!(!acc.is_zero())` in FieldElement::batch_invert, where acc is a product
                # of non-zero secret values: the condition is computed from secret data and is always true.  Such a report is
                # NOT a violation (it was, for a few hours, and raised exactly this false alarm on the unchanged tree); it stays
                # in the evidence as an unreproduced candidate.
                unconfirmed.append((cid, t))
    # (3) the AVX-512 IFMA build cannot run under valgrind 3.19: its instruction-address sequence is observed natively by
    # single-stepping between the markers (control flow only; data addresses are not observable this way).  Thorough: also the
    # AVX2 build, as an observation of the real instruction stream that is independent of valgrind's translation.
    native = []
    if "avx512ifma" in open("/proc/cpuinfo").read():
        stepper = build_stepper()
        for b in (["v512"] if quick else ["v512", "v2"]):
            cid = cfg_id(b)
            binp = bins.get(cid) or build(b, True, "release", ())
            if quick:
                k = ck.seed % len(TARGETS)
                subset = [TARGETS[(k + 4 * j) % len(TARGETS)] for j in range(5)]
                for must in ("ed.mul", "ed.mul_base"):          # the operations with IFMA-specific code
                    if must not in subset:
                        subset.append(must)
                subset = sorted(set(subset), key=TARGETS.index)
            else:
                subset = list(TARGETS)
            res = native_lockstep(ck, stepper, binp, cid, subset + [VARTIME[1]])
            if res[VARTIME[1]]["divergence"] is None:
                raise ToolError("native single-step comparison is blind: the variable-time operation did not diverge")
            for t in subset:
                windows += NSEC
                d = res[t]["divergence"]
                native.append(dict(cfg=cid, target=t, instructions=res[t]["steps"], diverged=d is not None))
                if d is not None:
                    ck.add_violation("%s: instruction-address sequence of %s depends on the secret (native single-step)" % (cid, t),
                                     dict(cfg=cid, target=t, divergence=d, script=os.path.join(ck.workdir, "st_" + cid, "script.ndjson"),
                                          how_to_replay="VERIF_CT_TRAP=1 VERIF_CT_SEL=<a|b> build/stepper out.ndjson driver %s <script> <trace>" % cid))
    else:
        ck.assumptions.append("this CPU has no AVX-512 IFMA: the v512 build was not observed")
    ck.samples += samples[:6]
    cov = dict(evaluations=windows, distinct_nontrivial=len({(s["cfg"], s["target"]) for s in samples if s["events_between_markers"] > 0}) + len(backends) * len(TARGETS),
               memcheck_candidates=["%s:%s" % c for c in candidates], confirmed=["%s:%s" % c for c in confirmed], unconfirmed_taint_reports=["%s:%s" % c for c in unconfirmed],
               lockstep=[dict(cfg=s["cfg"], target=s["target"], events=s["events_between_markers"], diverged=s["divergence"] is not None) for s in samples],
               native_single_step=native,
               not_observable=["AVX-512 IFMA code cannot run under valgrind 3.19: for the v512 build only the instruction-address sequence (ptrace single-step) is compared, not data addresses",
                               "micro-architectural effects below the instruction / address level"])
    ck.assumptions += ["valgrind memcheck definedness tracking (--expensive-definedness-checks=yes) and lackey traces of the x86-64 release binary built by the pinned compiler",
                       "a memcheck report is a candidate; only a divergence of the lock-step traces between two secrets is a violation", "TLC/SANY for the mechanism models"]
    return ck.finish(rule="one window = one (operation, build, secret) execution between the two markers; memcheck: every operation of the policy x build with the secret marked undefined; "
                     "lock-step: %d secrets (all-zero, all-ones, single bits, random) per operation, instruction addresses and data addresses compared by digest; non-trivial = the operation has a secret argument "
                     "and executed at least one instruction between the markers" % NSEC, extra_cov=cov)
