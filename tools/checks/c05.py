"""C05 - backend, word size and table features are unobservable.
One master script (the public-API scripts of C02, C03, C04, C06, C07, C08, C09, C13) is replayed against one driver per
configuration (6 backends x tables on/off + forced dispatch).  The reference trace is validated against the specification;
TraceEquiv.tla then walks the merged traces and requires every public observation to be identical in all configurations."""
import os
import json
from vlib import *
from checks import c02, c03, c04, c06, c07, c08, c09, c13

THOROUGH_ROUNDS = 3      # repetitions of the conformance part in the thorough tier (fresh random draws each)
HOOK_ONLY = ("fe.", "vec.", "const.", "ed.table", "ris.table")


def master(rng, quick):
    ops = []
    for g in (lambda: c02.gen(rng, True), lambda: c03.gen(rng, True), lambda: c04.gen(rng, True, False, 8 if quick else 191),
              lambda: c06.gen(rng, True), lambda: c07.gen(rng, True), lambda: c08.gen(rng, True), lambda: c09.gen(rng, True), lambda: c13.gen(rng, True)):
        part = [o for o in g() if not o["op"].startswith(HOOK_ONLY) and o["op"] != "info"]
        ops.append({"op": "reset"})
        ops += part
    return [{"op": "info"}] + ops + misuse(rng)


def misuse(rng):
    """calls the documentation calls an error (iterators of inconsistent lengths): no outcome is specified, but whatever
    happens - a value or a panic - must not depend on the configuration"""
    ops = [{"op": "reset"}]
    for i in range(4):
        ops.append({"op": "ed.mul_base", "in": [le(rng.randrange(1, L))], "out": "U%d" % i})
    sc = lambda k: [le(rng.randrange(L)) for _ in range(k)]
    for mode in ("mixed", "optional"):
        for ns, nd, npt in ((2, 3, 2), (2, 1, 2), (3, 2, 2), (0, 1, 0), (2, 0, 1)):      # static scalars, dynamic scalars, dynamic points (2 static points)
            ops.append({"op": "ed.precomputed", "static_points": ["U0", "U1"], "static_scalars": sc(ns), "dynamic_scalars": sc(nd),
                        "dynamic_points": ["U2", "U3"][:npt], "mode": mode, "out": "R", "misuse": True})
    ops.append({"op": "ed.precomputed", "static_points": ["U0", "U1"], "static_scalars": sc(3), "dynamic_scalars": [], "dynamic_points": [], "mode": "static", "out": "R", "misuse": True})
    for op in ("ed.multiscalar_mul", "ed.vartime_multiscalar_mul", "ed.optional_multiscalar_mul"):
        for ns, npt in ((3, 2), (1, 2), (0, 1)):
            ops.append({"op": op, "scalars": sc(ns), "points": ["U0", "U1"][:npt], "out": "R", "misuse": True})
    return ops


def public(obs):
    """projection to what the public API exposes: drop hook-only fields"""
    if isinstance(obs, dict):
        return {k: public(v) for k, v in obs.items() if k not in ("xyzt", "limbs", "backend", "nlimbs", "avx2", "ifma", "tables", "ed_legacy")}
    if isinstance(obs, list):
        return [public(v) for v in obs]
    return obs


def run(ck):
    quick = ck.quick()
    specs = [(b, t) for b in ALL_BACKENDS for t in (True, False)]
    bins = build_many([(b, t, "release", ()) for b, t in specs], jobs=4)
    ops = master(ck.rng, quick)
    traces = []
    for b, t in specs:
        cid = cfg_id(b, t)
        variants = [(cid, None)]
        if b in ("v2", "v512"):
            variants.append((cid + "!serial", 1))
        if b == "v512":
            variants.append((cid + "!avx2", 2))
        for lab, forced in variants:
            o = ([{"op": "force_backend", "kind": forced}] if forced else [{"op": "force_backend", "kind": 0}]) + ops
            sp = os.path.join(ck.workdir, lab + ".script.ndjson")
            tp = os.path.join(ck.workdir, lab + ".trace.ndjson")
            write_script(sp, o)
            run_driver(bins[cid], lab, sp, tp)
            traces.append((lab, tp))
    # 1. the reference traces are what the specification says (one serial, one vector)
    ck.validate([t for t in traces if t[0] in ("s64+t", "v2-t")], jobs=12, chunks=6)
    # 2. every configuration equals the reference on every public observation
    evs = [read_trace(tp) for _, tp in traces]
    n = len(evs[0])
    if any(len(e) != n for e in evs):
        raise ToolError("traces have different lengths")
    merged = os.path.join(ck.workdir, "merged.ndjson")
    disp = {lab: set() for lab, _ in traces}
    with open(merged, "w") as f:
        for i in range(n):
            if evs[0][i]["op"] in ("info", "force_backend"):
                continue
            for (lab, _), e in zip(traces, evs):
                disp[lab].add(e[i].get("backend", 0))
            f.write(json.dumps({"i": evs[0][i]["i"], "op": evs[0][i]["op"], "cfgs": [lab for lab, _ in traces],
                                "obs": [json.dumps(public(e[i]["obs"]), sort_keys=True) for e in evs],
                                # the text of a panic names the source file of the copy that raised it: for misuse requests only the fact counts
                                "panic": [("panic" if e[i]["panic"] else "") if evs[0][i].get("misuse") else e[i]["panic"] for e in evs]}) + "\n")
    v = validate_trace(merged, os.path.join(ck.workdir, "tv_equiv"), module="TraceEquiv")
    ck.traces += len(traces)
    ck.states += v["states"]
    ck.transitions += v["events"]
    ck.cov["equiv"] = dict(requests=v["events"], configurations=[lab for lab, _ in traces], mismatches=len(v["bad"]))
    ck.cov["dispatch_observed"] = {k: sorted(x) for k, x in disp.items()}
    for b in v["bad"]:
        ck.add_violation("configuration %s differs on %s (request %s)" % (b.get("cfg"), b.get("op"), b.get("i")), dict(mismatch=b, merged=merged))
    # the dispatcher took every value it can take on this host
    want = {"v2+t": {2}, "v2+t!serial": {1}, "v512+t": {3}, "v512+t!avx2": {2}, "v512+t!serial": {1}}
    for lab, w in want.items():
        if not w <= disp.get(lab, set()):
            raise ToolError("dispatcher never selected %s in %s (observed %s)" % (w, lab, disp.get(lab)))
    ck.add_sample_events(traces[0][1], 3)
    ck.assumptions += ["32-bit backends are compiled for x86-64 with curve25519_dalek_bits=\"32\" (no 32-bit target installed)", "BigNat.class", "TLC/SANY"]
    return ck.finish(rule="one request stream (public-API scripts of C02-C04, C06-C09, C13) x 12 builds + 5 forced-dispatch variants; a request is distinct by (op, operands); "
                     "every public observation and every panic field must be identical in all 17 configurations, and the reference configurations are validated against the specification")
