"""C08 - Ed25519 key derivation and signing are the RFC 8032 functions.
TLC: MC_Ed25519 (toy group, abstract hash: every honest signature verifies in all variants; wrong challenge rejected).
Conformance: seeds x message lengths at SHA-512 block edges x contexts 0..255 (+refusal), keypair import, then every
verification variant on each signature under the right and wrong key / message / context; RFC 8032 vectors as spec self-test."""
import os
from vlib import *
import pyed


THOROUGH_ROUNDS = 1      # repetitions of the conformance part in the thorough tier (fresh random draws each)
def gen(rng, quick):
    ops = [{"op": "info"}]
    seeds = [le(0), le(2**256 - 1), le(rng.getrandbits(256)), le(rng.getrandbits(256))]
    if not quick:
        seeds += [le(rng.getrandbits(256)) for _ in range(6)]
    lens = [0, 1, 2, 111, 112, 113, 127, 128, 129, 255, 256] + ([] if quick else [1000, 10000])
    ctxs = [[], [0], [rng.randrange(256) for _ in range(254)], [rng.randrange(256) for _ in range(255)]]
    bad_ctxs = [[1] * 256, [2] * 1000]
    for s, p, m, g in pyed.RFC8032:
        ops.append({"op": "sig.keygen", "in": [list(bytes.fromhex(s))], "rfc": {"pk": p}})
        ops.append({"op": "sig.sign", "in": [list(bytes.fromhex(s)), list(bytes.fromhex(m))], "rfc": {"sig": g}})
    s, p, m, g = pyed.RFC8032_PH
    ops.append({"op": "sig.sign_prehashed", "in": [list(bytes.fromhex(s)), list(bytes.fromhex(m)), []], "rfc": {"sig": g}})
    ops.append({"op": "sig.sign_prehashed", "in": [list(bytes.fromhex(s)), list(bytes.fromhex(m)), []], "noctx": True, "rfc": {"sig": g}})
    for _ in range(3):
        ops.append({"op": "rng.signing_key", "in": [le(rng.getrandbits(256))]})
    for seed in seeds:
        ops.append({"op": "sig.keygen", "in": [seed]})
        pk = list(pyed.public(seed))
        other = list(pyed.public(le(rng.getrandbits(256))))
        # keypair import: matching, another key, negated key, undecodable halves, single-bit flips
        halves = [pk, other, pk[:31] + [pk[31] ^ 0x80], le(2), le(rng.getrandbits(256)), le(rng.getrandbits(256))]
        for i in rng.sample(range(256), 6 if quick else 40):
            h = list(pk)
            h[i // 8] ^= 1 << (i % 8)
            halves.append(h)
        for h in halves:
            ops.append({"op": "sig.from_keypair_bytes", "in": [seed + h]})
        for n in (0, 31, 32, 33, 63, 64, 65):
            ops.append({"op": "sig.sk_from_slice", "in": [[5] * n]})
        for n in (lens if seed is seeds[0] or not quick else rng.sample(lens, 4)):
            msg = [rng.randrange(256) for _ in range(n)]
            ops.append({"op": "sig.sign", "in": [seed, msg]})
            ctx = rng.choice(ctxs)
            ops.append({"op": "sig.sign_prehashed", "in": [seed, msg, ctx]})
            sig = list(pyed.sign(seed, msg))
            sigph = list(pyed.sign(seed, msg, True, bytes(ctx)))
            other_ctx = ctx[:-1] + [ctx[-1] ^ 1] if ctx else [0]
            msg2 = (msg[:-1] + [msg[-1] ^ 1]) if msg else [0]
            # right key/message/context, then each one wrong
            ops.append({"op": "sig.verify", "in": [pk, msg, sig, []]})
            ops.append({"op": "sig.verify", "in": [pk, msg, sigph, ctx]})
            ops.append({"op": "sig.verify", "in": [other, msg, sig, []]})
            ops.append({"op": "sig.verify", "in": [pk, msg2, sig, []]})
            ops.append({"op": "sig.verify", "in": [pk, msg2, sigph, ctx]})
            ops.append({"op": "sig.verify", "in": [pk, msg, sigph, other_ctx]})
            ops.append({"op": "sig.verify", "in": [pk, msg, sig, ctx]})           # a pure signature is not a prehashed one
            ops.append({"op": "sig.verify", "in": [pk, msg, sigph, [7] * 300]})   # context too long: refused
        for ctx in ctxs + bad_ctxs:
            msg = [rng.randrange(256) for _ in range(rng.choice([0, 3, 64]))]
            ops.append({"op": "sig.sign_prehashed", "in": [seed, msg, ctx]})
        ops.append({"op": "sig.sign_prehashed", "in": [seed, [1, 2, 3], [9]], "noctx": True})
        # signing with an arbitrary expanded key (hazmat)
        ops.append({"op": "sig.sign_expanded", "in": [le(rng.getrandbits(512), 64), [rng.randrange(256) for _ in range(5)]]})
        # batch verification of honest signatures made here
        ents = []
        for j in range(3):
            sd = le(rng.getrandbits(256))
            msg = [rng.randrange(256) for _ in range(j * 7)]
            ents.append([list(pyed.public(sd)), msg, list(pyed.sign(sd, msg))])
        ops.append({"op": "sig.verify_batch", "entries": ents})
    return ops


def run(ck):
    quick = ck.quick()
    ck.mc("MC_Ed25519", "MC_Ed25519_29.cfg", note="order-40 curve, l'=5: all key encodings x challenges x S bytes; honest signatures", workers=8)
    if not quick:
        ck.mc("MC_Ed25519", "MC_Ed25519_101.cfg", note="order-88 curve, l'=11", workers=8, timeout=3000)
    specs = [("s64", True), ("s32", True), ("v2", True)] if quick else [(b, True) for b in ALL_BACKENDS] + [("s64", False), ("v2", False)]
    bins = build_many([(b, t, "release", ()) for b, t in specs], jobs=3)
    ops = gen(ck.rng, quick)
    sp = os.path.join(ck.workdir, "script.ndjson")
    write_script(sp, ops)
    traces = []
    for b, t in specs:
        cid = cfg_id(b, t)
        tp = os.path.join(ck.workdir, cid + ".trace.ndjson")
        run_driver(bins[cid], cid, sp, tp)
        traces.append((cid, tp))
    ck.validate(traces)
    # self-test of the specification: on the RFC 8032 inputs the validated (= specified) outputs are the RFC's
    n = 0
    for e in read_trace(traces[0][1]):
        if "rfc" in e:
            for k, v in e["rfc"].items():
                n += 1
                if bytes(e["obs"][k]).hex() != v and not ck.violations:
                    raise ToolError("specification self-test: RFC 8032 vector not reproduced for " + e["op"])
    ck.cov["rfc8032_vectors_reproduced"] = n
    ev = read_trace(traces[0][1])
    ck.cov["verify_outcomes"] = dict(accepted=sum(1 for e in ev if e["op"] == "sig.verify" and e["obs"].get("verify")),
                                     rejected=sum(1 for e in ev if e["op"] == "sig.verify" and e["obs"].get("verify") is False))
    ck.add_sample_events(traces[0][1], 3, pred=lambda e: e["op"].startswith("sig.") and len(json.dumps(e)) < 2500)
    ck.assumptions += ["SHA-512 = java.security.MessageDigest (Hash.class)", "BigNat.class", "TLC/SANY", "tools/pyed.py constructs signatures used as verifier inputs; it is checked against RFC 8032 7.1/7.3 and never used as an oracle"]
    return ck.finish(rule="toy: signing algebra for all (key, nonce, challenge) of the toy group; full size: seeds (0, all-ones, random) x message lengths at SHA-512 "
                     "block edges x contexts of 0/1/254/255 bytes (and 256/1000 refused), keypair import with matching / foreign / negated / undecodable / bit-flipped "
                     "public halves, every verification variant under right and wrong key, message and context; distinct by (build, op, input bytes)")


import json
