"""C03 - Edwards points stay on the curve and obey the group law.
TLC: MC_Edwards (toy curves: all pairs of the full group, several projective representatives, all 256 encodings;
     layer A = dalek's curve-model formulas refines layer D = affine law), Api histories (spec -> code).
Conformance: class-directed pairs, decompression families, long mixed chains; compressed bytes + (X,Y,Z,T)."""
import os
import json
from vlib import *
import pyed


THOROUGH_ROUNDS = 2      # repetitions of the conformance part in the thorough tier (fresh random draws each)
def gen(rng, quick, api_scripts=()):
    ops = [{"op": "info"}]
    N = 1 if quick else 6
    regs = ["R%d" % i for i in range(8)]

    def obs(r):
        ops.append({"op": "ed.compress", "in": [r]})

    def preds(r):
        for op in ("ed.is_identity", "ed.is_small_order", "ed.is_torsion_free"):
            ops.append({"op": op, "in": [r]})

    def mk(reg, k, t):
        """reg := k*B + t*T8 built through the API"""
        ops.append({"op": "ed.mul_base", "in": [le(k % L)], "out": reg})
        if t % 8:
            ops.append({"op": "ed.torsion", "k": t % 8, "out": "TT"})
            ops.append({"op": "ed.add", "in": [reg, "TT"], "out": reg})

    # 0. constants
    ops.append({"op": "ed.compressed_identity"})
    for op in ("ed.basepoint", "ed.identity", "ed.default"):
        ops.append({"op": op, "out": "R0"})
        preds("R0")
    for k in range(8):
        ops.append({"op": "ed.torsion", "k": k, "out": "R0"})
        preds("R0")
        ops.append({"op": "ed.mul_by_pow_2", "in": ["R0"], "out": "R1", "k": 1})
        ops.append({"op": "ed.mul_by_pow_2", "in": ["R0"], "out": "R1", "k": 2})

    ops.append({"op": "reset"})
    # 1. decompression families
    dec = []
    dec += [le(v) for v in (0, 1, 2, P - 1, P, P + 1, 2**255 - 1, 2**255, 2**255 + 1, 2**256 - 1, 2**255 + P - 1, 2**255 + P, 2**255 + P + 1, 2**256 - 20)]
    dec += pyed.noncanonical_encodings()
    for k in range(8):                                    # every torsion point, both sign bits, +p alias
        c = pyed.compress(pyed.mul(k, pyed.T8))
        dec += [c, c[:31] + [c[31] ^ 0x80]]
    for _ in range(120 * N):
        dec.append(le(rng.getrandbits(256)))              # about half decode
    for _ in range(20 * N):                               # valid encodings with the sign flipped / y+p when small
        pt = pyed.mul(rng.randrange(1, L), pyed.B)
        c = pyed.compress(pyed.add(pt, pyed.mul(rng.randrange(8), pyed.T8)))
        dec += [c, c[:31] + [c[31] ^ 0x80]]
    for b in dec:
        ops.append({"op": "ed.decompress", "in": [b], "out": "R0"})
        ops.append({"op": "ed.from_slice", "in": [b], "out": "R1"})
    for n in (0, 1, 31, 33, 64):
        ops.append({"op": "ed.from_slice", "in": [[7] * n], "out": "R1"})

    # 2. class-directed pairs: Q = P, -P, P + T_t, identity, small order, mixed order
    for _ in range(6 * N):
        ops.append({"op": "reset"})
        k = rng.randrange(1, L)
        t0 = rng.randrange(8)
        mk("R0", k, t0)
        cases = [(k, t0), (L - k, (8 - t0) % 8)] + [(k, (t0 + t) % 8) for t in range(1, 8)] + [(0, 0), (0, rng.randrange(1, 8)), (rng.randrange(1, L), rng.randrange(8)), (2 * k % L, 2 * t0 % 8)]
        for (k2, t2) in cases:
            mk("R1", k2, t2)
            for op in ("ed.add", "ed.sub", "ed.eq", "ed.add_assign", "ed.sub_owned"):
                o = {"op": op, "in": ["R0", "R1"], "out": "R2"}
                ops.append(o)
                if op != "ed.eq":
                    preds("R2") if rng.random() < 0.2 else None
            ops.append({"op": "ed.cond_select", "in": ["R0", "R1"], "out": "R2", "c": rng.random() < 0.5})
        for op in ("ed.neg", "ed.double", "ed.mul_by_cofactor", "ed.neg_owned"):
            ops.append({"op": op, "in": ["R0"], "out": "R2"})
        ops.append({"op": "ed.mul_by_pow_2", "in": ["R0"], "out": "R2", "k": rng.randrange(1, 9)})
        preds("R0")
    ops.append({"op": "reset"})
    # small-order x small-order, every pair
    for i in range(8):
        for j in range(8):
            ops.append({"op": "ed.torsion", "k": i, "out": "R0"})
            ops.append({"op": "ed.torsion", "k": j, "out": "R1"})
            ops.append({"op": "ed.add", "in": ["R0", "R1"], "out": "R2"})
            ops.append({"op": "ed.eq", "in": ["R0", "R1"]})

    # 2b. boundary representations: x with an all-ones / zero / 2^50 limb, so that negation and the serial<->vector
    #     conversions see limbs at exactly 2^51 and carries across every limb position
    ops.append({"op": "reset"})
    for i in range(5):
        for val in ((1 << 51) - 1, 0, 1 << 50, (1 << 26) - 1, ((1 << 25) - 1) << 26):
            pt = pyed.point_with_limb_pattern(rng, i, val)
            if pt is None:
                continue
            c = pyed.compress(pt)
            ops.append({"op": "ed.decompress", "in": [c], "out": "R0"})
            ops.append({"op": "ed.decompress", "in": [c[:31] + [c[31] ^ 0x80]], "out": "R1"})
            ops.append({"op": "ed.neg", "in": ["R0"], "out": "R2"})
            ops.append({"op": "ed.eq", "in": ["R1", "R2"]})
            ops.append({"op": "ed.add", "in": ["R0", "R2"], "out": "R3"})
            s = le(rng.randrange(L))
            for r in ("R0", "R1", "R2"):
                ops.append({"op": "ed.mul", "in": [r, s], "out": "R4"})
                ops.append({"op": "ed.vartime_double_scalar_mul_basepoint", "in": [s, r, le(rng.randrange(L))], "out": "R4"})
            ops.append({"op": "ed.multiscalar_mul", "scalars": [s, le(3)], "points": ["R1", "R2"], "out": "R4"})
            ops.append({"op": "ed.vartime_multiscalar_mul", "scalars": [s, le(3)], "points": ["R1", "R2"], "out": "R4"})

    # 3. long mixed chains over a register pool (histories)
    for chain in range(2 * N):
        ops.append({"op": "reset"})
        for r in regs:
            src = rng.random()
            if src < 0.4:
                mk(r, rng.randrange(L), rng.randrange(8))
            elif src < 0.5:
                ops.append({"op": "ed.torsion", "k": rng.randrange(8), "out": r})
            elif src < 0.6:
                ops.append({"op": "ed.identity", "out": r})
            else:
                pt = pyed.add(pyed.mul(rng.randrange(L), pyed.B), pyed.mul(rng.randrange(8), pyed.T8))
                ops.append({"op": "ed.decompress", "in": [pyed.compress(pt)], "out": r})
        for step in range(400):
            a, b, c = rng.choice(regs), rng.choice(regs), rng.choice(regs)
            r = rng.random()
            if r < 0.35:
                ops.append({"op": rng.choice(["ed.add", "ed.sub", "ed.add_assign", "ed.sub_assign", "ed.add_owned"]), "in": [a, b], "out": c})
            elif r < 0.55:
                ops.append({"op": rng.choice(["ed.neg", "ed.double", "ed.mul_by_cofactor", "ed.copy"]), "in": [a], "out": c})
            elif r < 0.6:
                ops.append({"op": "ed.mul_by_pow_2", "in": [a], "out": c, "k": rng.randrange(1, 6)})
            elif r < 0.65:
                n = rng.randrange(0, 5)
                ops.append({"op": "ed.sum", "in": [rng.choice(regs) for _ in range(n)], "out": c, "owned": rng.random() < 0.5})
            elif r < 0.7:
                ops.append({"op": "ed.cond_assign", "in": [a, b], "out": c, "c": rng.random() < 0.5})
            elif r < 0.8:
                ops.append({"op": "ed.eq", "in": [a, b]})
            elif r < 0.9:
                obs(a)
            else:
                ops.append({"op": rng.choice(["ed.is_identity", "ed.is_small_order", "ed.is_torsion_free"]), "in": [a]})
    for s in api_scripts:
        ops.append({"op": "reset"})
        ops += s
    return ops


def gen_vec_points(kind, rng, quick):
    """the parallel (4-lane) point formulas of the vector backends as first-class operations (hook): every relation class"""
    ops = [{"op": "reset"}]

    def mk(reg, k, t):
        ops.append({"op": "ed.mul_base", "in": [le(k % L)], "out": reg})
        if t % 8:
            ops.append({"op": "ed.torsion", "k": t % 8, "out": "TT"})
            ops.append({"op": "ed.add", "in": [reg, "TT"], "out": reg})
    for it in range(3 if quick else 20):
        k, t0 = rng.randrange(1, L), rng.randrange(8)
        mk("V0", k, t0)
        for (k2, t2) in [(k, t0), (L - k, (8 - t0) % 8), (0, 0), (0, rng.randrange(1, 8)), (k, (t0 + 4) % 8), (rng.randrange(1, L), rng.randrange(8))] + [(k, (t0 + t) % 8) for t in (1, 2)]:
            mk("V1", k2, t2)
            for f in ("add", "sub", "add_neg"):
                ops.append({"op": "vec.point", "kind": kind, "f": f, "in": ["V0", "V1"], "out": "V2"})
                ops.append({"op": "vec.point", "kind": kind, "f": f, "in": ["V1", "V0"], "out": "V3"})
            ops.append({"op": "vec.cached", "kind": kind, "in": ["V1"]})
        for f in ("roundtrip", "double"):
            ops.append({"op": "vec.point", "kind": kind, "f": f, "in": ["V0", "V0"], "out": "V2"})
            ops.append({"op": "vec.point", "kind": kind, "f": f, "in": ["V2", "V2"], "out": "V3"})     # results feed the next operation
        ops.append({"op": "vec.point", "kind": kind, "f": "pow2", "k": rng.randrange(1, 6), "in": ["V0", "V0"], "out": "V2"})
    for t in range(8):
        ops.append({"op": "ed.torsion", "k": t, "out": "V0"})
        ops.append({"op": "ed.identity", "out": "V1"})
        for f in ("double", "add", "sub"):
            ops.append({"op": "vec.point", "kind": kind, "f": f, "in": ["V0", "V1"], "out": "V2"})
            ops.append({"op": "vec.point", "kind": kind, "f": f, "in": ["V0", "V0"], "out": "V2"})
    return ops


def api_histories(ck, n, depth):
    """spec -> code: TLC simulates Api.tla on the toy curve; each behaviour (a sequence of API calls over a
    3-register file, with aliasing) becomes a full-size script through (k, t) -> k*B + t*T8."""
    import subprocess, re as _re
    wd = os.path.join(ck.workdir, "api_sim")
    rc, out, wall = vlib_tlc(["-workers", "1", "-simulate", "num=%d" % n, "-depth", str(25), "-seed", str(ck.seed), "-config", "MC_Api_sim.cfg", "MC_Api.tla"], {}, wd, 600)
    seen = set()
    hs = []
    for h in tlc_prints(out, "HIST"):
        k = json.dumps(h)
        if k not in seen:
            seen.add(k)
            hs.append(h)
    # TLC prints one behaviour per candidate last step; keep a seeded sample
    if len(hs) > 3 * n:
        hs = ck.rng.sample(hs, 3 * n)
    scripts = []
    for h in hs:
        ops = []
        for st in h:
            if st["op"] == "init":
                for i, (k, t) in enumerate(st["pts"]):
                    kk = (k * 0x1F3A55D1C9 + 12345) % L if k else 0      # any lift of k mod l' works; keep 0 -> 0
                    ops.append({"op": "ed.mul_base", "in": [le(kk)], "out": "A%d" % (i + 1)})
                    if t % 8:
                        ops.append({"op": "ed.torsion", "k": t % 8, "out": "TT"})
                        ops.append({"op": "ed.add", "in": ["A%d" % (i + 1), "TT"], "out": "A%d" % (i + 1)})
            elif st["op"] in ("add", "sub"):
                ops.append({"op": "ed." + st["op"], "in": ["A%d" % st["a"], "A%d" % st["b"]], "out": "A%d" % st["c"]})
            elif st["op"] in ("neg", "double", "mul_by_cofactor"):
                ops.append({"op": "ed." + st["op"], "in": ["A%d" % st["a"]], "out": "A%d" % st["c"]})
            elif st["op"] == "mul":
                # the scalar CLASS carries over: l' -> l (toy order of the prime subgroup -> real one)
                lp = st.get("lp", 0)
                n = st["n"]
                full = {lp - 1: L - 1, lp: L, lp + 1: L + 1}.get(n, n) if lp else n
                ops.append({"op": "ed.mul", "in": ["A%d" % st["a"], le(full)], "out": "A%d" % st["c"]})
            elif st["op"] == "recode":
                ops.append({"op": "ed.recode", "in": ["A%d" % st["a"]], "out": "A%d" % st["c"]})
            elif st["op"] == "select":
                ops.append({"op": "ed.cond_select", "in": ["A%d" % st["a"], "A%d" % st["b"]], "c": bool(st["f"]), "out": "A%d" % st["c"]})
            elif st["op"] == "eq":
                ops.append({"op": "ed.eq", "in": ["A%d" % st["a"], "A%d" % st["b"]]})
            elif st["op"] == "pred":
                for op in ("ed.is_identity", "ed.is_small_order", "ed.is_torsion_free", "ed.compress"):
                    ops.append({"op": op, "in": ["A%d" % st["a"]]})
        scripts.append(ops)
    ck.cov["api_histories"] = dict(behaviours=len(scripts), depth=depth, tlc_wall_s=round(wall, 1))
    if not scripts:
        raise ToolError("Api simulation produced no behaviours:\n" + out[-2000:])
    return scripts


def vlib_tlc(args, env, wd, timeout):
    import vlib
    return vlib._tlc(args, env, wd, timeout)


def run(ck):
    quick = ck.quick()
    ck.mc("MC_Edwards", "MC_Edwards_29.cfg", note="order-40 curve: all pairs, 4 Z-scalings, all 256 encodings", workers=8)
    ck.mc("MC_Edwards", "MC_Edwards_101.cfg", note="order-88 curve: all 7744 pairs", workers=8)
    if not quick:
        ck.mc("MC_Edwards", "MC_Edwards_109.cfg", note="order-104 curve", workers=8)
    ck.mc("MC_Api", "MC_Api_29.cfg", note="API histories over a 2-register file, order-40 curve, representation invariant along every history", workers=8)
    scripts = api_histories(ck, 40 if quick else 400, 30)
    backends = ["s64", "s32", "v2", "v512"] if quick else ["s64", "s32", "f64", "f32", "v2", "v512"]
    bins = build_many([(b, True, "release", ()) for b in backends], jobs=3)
    ops = gen(ck.rng, quick, scripts)
    traces = []
    for b in backends:
        cid = cfg_id(b)
        o = list(ops)
        if b in ("v2", "v512"):
            o += gen_vec_points("avx2", ck.rng, quick)
        if b == "v512":
            o += gen_vec_points("ifma", ck.rng, quick)
        sp = os.path.join(ck.workdir, cid + ".script.ndjson")
        write_script(sp, o)
        tp = os.path.join(ck.workdir, cid + ".trace.ndjson")
        run_driver(bins[cid], cid, sp, tp)
        traces.append((cid, tp))
    ck.validate(traces)
    ck.add_sample_events(traces[0][1], 4)
    ck.assumptions += ["BigNat.class override", "TLC/SANY", "tools/pyed.py only constructs inputs; every expected value is computed by TLC from Edwards.tla"]
    return ck.finish(rule="toy: all pairs of points of the full group (order 8l') in several projective representatives, all 256 encodings, "
                     "all API histories to the explored depth; full size: decompression families (non-canonical y, sign bit on x=0, off-curve), "
                     "class-directed pairs (Q = P, -P, P+T_t, O, small/mixed order), TLC-generated histories, 400-step mixed chains; "
                     "distinct by (backend, op, operand registers' values)")
