"""C13 - batch verification agrees with single verification and is deterministic.
TLC: MC_Batch (toy group: the batch equation with arbitrary coefficients; all valid => identity; one invalid => non-identity
     except for 1/l' of the coefficients; kept counterexample on mixed order).
Conformance: batches of sizes 0..95 (thorough 250, 400), every single-entry corruption at first/middle/last position,
permutations, duplicates, repeated calls, the three length mismatches."""
import os
from vlib import *
import pyed


THOROUGH_ROUNDS = 1      # repetitions of the conformance part in the thorough tier (fresh random draws each)
def honest(rng, n):
    ents = []
    for j in range(n):
        sd = le(rng.getrandbits(256))
        msg = [rng.randrange(256) for _ in range(rng.randrange(0, 20))]
        ents.append([list(pyed.public(sd)), msg, list(pyed.sign(sd, msg))])
    return ents


def corrupt(rng, ent, how):
    pk, msg, sig = [list(x) for x in ent]
    if how == "msg":
        msg = msg + [1]
    elif how == "key":                         # another honest key (canonical, prime order)
        pk = list(pyed.public(le(rng.getrandbits(256))))
    elif how == "R":                           # another prime-order R
        sig = pyed.compress(pyed.mul(rng.randrange(1, L), pyed.B)) + sig[32:]
    elif how == "S":                           # another canonical S
        sig = sig[:32] + le((from_le(sig[32:]) + 1) % L)
    elif how == "S_noncanonical":
        sig = sig[:32] + le(from_le(sig[32:]) + L)
    elif how == "R_undecodable":
        sig = le(2) + sig[32:]
    return [pk, msg, sig]


def crafted_undecodable(rng):
    """an entry by the key owner whose R does not decode and whose S makes the equation hold if the z*R term is dropped:
    S = H(R || A || M) * a.  Single verification rejects it (R is not a point); so must every batch, of any size."""
    sd = le(rng.getrandbits(256))
    a, _ = pyed.expand(sd)
    A = pyed.public(sd)
    msg = [rng.randrange(256) for _ in range(rng.randrange(0, 20))]
    while True:
        R = le(rng.getrandbits(255))
        if pyed.decompress(R) is None:
            break
    k = pyed.challenge(R, A, msg)
    return [list(A), msg, list(R) + le((k * a) % L)]


def cancelling(rng, ents):
    """two entries corrupted by +d and -d in S: both invalid on their own; they cancel iff their coefficients are equal"""
    i, j = rng.sample(range(len(ents)), 2)
    d = rng.randrange(1, L)
    e2 = [[list(x) for x in e] for e in ents]
    for p, dd in ((i, d), (j, L - d)):
        e2[p][2] = e2[p][2][:32] + le((from_le(e2[p][2][32:]) + dd) % L)
    return e2


def gen(rng, quick):
    ops = [{"op": "info"}]
    sizes = [0, 1, 2, 3, 7, 94, 95] + ([] if quick else [250, 400])
    for n in sizes:
        ents = honest(rng, n)
        ops.append({"op": "sig.verify_batch", "entries": ents})
        if n == 0:
            continue
        pos = sorted({0, n // 2, n - 1})
        hows = ["msg", "key", "R", "S", "S_noncanonical", "R_undecodable"]
        if n > 10:
            hows = rng.sample(hows, 3) if quick else hows
        for how in hows:
            for p in (pos if n <= 10 or not quick else [rng.choice(pos)]):
                e2 = list(ents)
                e2[p] = corrupt(rng, ents[p], how)
                ops.append({"op": "sig.verify_batch", "entries": e2})
        if n >= 2 and n <= 10:
            perm = list(ents)
            rng.shuffle(perm)
            ops.append({"op": "sig.verify_batch", "entries": perm})
            ops.append({"op": "sig.verify_batch", "entries": ents + [ents[0], ents[-1]]})       # duplicated entries
            bad = list(ents); bad[0] = corrupt(rng, ents[0], "msg")
            ops.append({"op": "sig.verify_batch", "entries": bad + [bad[0]]})
            for lens in ([n - 1, n, n], [n, n - 1, n], [n, n, n - 1], [n - 1, n - 1, n], [0, n, n]):
                ops.append({"op": "sig.verify_batch", "entries": ents, "lens": lens})
    # errors that cancel under equal (or related) coefficients; the same entry twice with +d / -d
    for n in (2, 3, 7, 95):
        ents = honest(rng, n)
        for _ in range(2 if n < 95 else 1):
            ops.append({"op": "sig.verify_batch", "entries": cancelling(rng, ents)})
        if n <= 7:
            ops.append({"op": "sig.verify_batch", "entries": cancelling(rng, [ents[0], ents[0]] + ents[1:])})
    # an undecodable R with an S crafted for the equation WITHOUT the z*R term, below and above the Straus / Pippenger switch
    for n in (1, 3, 94, 95, 96):
        ents = honest(rng, n)
        p = rng.randrange(n)
        ents[p] = crafted_undecodable(rng)
        ops.append({"op": "sig.verify_batch", "entries": ents})
    # the adaptive adversary (needs the coefficient hook): honest batches of several sizes, attacked by the driver itself
    for n in (2, 3, 7, 95):
        ops.append({"op": "sig.verify_batch", "entries": honest(rng, n), "adaptive": True})
    # single verification of every entry is specified by C09's predicate; the batch verdict must equal their conjunction
    return ops


def run(ck):
    quick = ck.quick()
    ck.mc("MC_Batch", "MC_Batch_29.cfg", note="batch equation over the toy group, n <= 2, all coefficients", workers=8)
    ck.mc("MC_Batch", "MC_Batch_neg.cfg", note="kept counterexample: batch and single verification disagree on mixed-order input", workers=2, expect_violation=True)
    specs = [("s64", True), ("v2", True)] if quick else [("s64", True), ("s32", True), ("v2", True), ("v512", True), ("v2", False)]
    bins = build_many([(b, t, "release", ()) for b, t in specs], jobs=3)
    ops = gen(ck.rng, quick)
    sp = os.path.join(ck.workdir, "script.ndjson")
    write_script(sp, ops)
    traces = []
    for b, t in specs:
        cid = cfg_id(b, t)
        variants = [(cid, sp)]
        if b in ("v2", "v512"):
            sp2 = os.path.join(ck.workdir, "script_serial.ndjson")
            write_script(sp2, [{"op": "force_backend", "kind": 1}] + ops)
            variants.append((cid + "!serial", sp2))
        for lab, spx in variants:
            tp = os.path.join(ck.workdir, lab + ".trace.ndjson")
            run_driver(bins[cid], lab, spx, tp)
            traces.append((lab, tp))
    ck.validate(traces, chunks=1)
    ev = read_trace(traces[0][1])
    ck.cov["batch_outcomes"] = dict(ok=sum(1 for e in ev if e["op"] == "sig.verify_batch" and e["obs"].get("ok")),
                                    err=sum(1 for e in ev if e["op"] == "sig.verify_batch" and e["obs"].get("ok") is False))
    ck.samples.append({"op": "sig.verify_batch", "sizes": sorted({len(e["entries"]) for e in ev if e["op"] == "sig.verify_batch"})})
    ck.assumptions += ["SHA-512 = MessageDigest", "BigNat.class", "TLC/SANY", "the merlin-derived coefficients are not modelled (the property does not depend on them)"]
    return ck.finish(rule="toy: batch equation for all coefficient vectors; full size: sizes 0,1,2,3,7,94,95 (2n+1 crosses the Straus/Pippenger switch at 190; thorough 250, 400), "
                     "each corruption kind at first/middle/last position, permutation, duplication, repetition, length mismatches; distinct by (build, entries)")
