"""C11 - no limb overflow: checked builds never panic and agree with release builds.
TLC: Bounds.tla (serial u64/u32: every kernel precondition at every program point of every group formula, along all chains,
     from the inductive type invariant "coordinates weakly reduced"), BoundsAvx2.tla (per-lane factors through the parallel
     formulas, re-deriving b < 1.01/1.6/2.33/1.6), LimbField toy kernels (no intermediate exceeds its word); kept counterexamples.
Conformance: (1) every kernel at its contract boundary in builds with overflow checks and debug assertions (all six backends),
(2) vector kernels from raw lanes at the documented lane bounds (wrap-around would corrupt the value), (3) group formulas on
coordinates whose limbs all sit at the type invariant's bound, (4) checked = release on the public-API master script."""
import os
import json
from decimal import Decimal, getcontext
from vlib import *
from checks import c01, c05

getcontext().prec = 60


THOROUGH_ROUNDS = 3      # repetitions of the conformance part in the thorough tier (fresh random draws each)
def pow2(b):
    return Decimal(2) ** Decimal(b)


def lane_limbs(b_excess, rng, mode):
    """ten 32-bit limbs of one lane with excess < b_excess bits (even limbs 26 bits, odd 25)"""
    out = []
    for i in range(10):
        bits = 26 if i % 2 == 0 else 25
        mx = min(int(pow2(bits) * pow2(Decimal(str(b_excess)))) - 1, 2**32 - 1)
        out.append(mx if mode == "max" else rng.randrange(mx // 2, mx + 1) if mode == "high" else rng.randrange(0, mx + 1))
    return out


def gen_avx2_bounds(rng, quick):
    """AVX2 kernels from raw lanes at the documented pre-bounds; the post-bound is claimed in the event and checked"""
    ops = [{"op": "vec.available"}]

    def raw(reg, b, mode):
        lanes = [lane_limbs(b, rng, mode) for _ in range(4)]
        ops.append({"op": "vec.from_raw", "kind": "avx2", "lanes": [[le(x, 4) for x in l] for l in lanes], "out": reg})

    def post(b):
        return {"bound_even": le(int(pow2(26) * pow2(Decimal(str(b)))), 8), "bound_odd": le(int(pow2(25) * pow2(Decimal(str(b)))), 8)}

    for mode in ["max", "high", "any"] * (1 if quick else 10):
        raw("X", 2.5, mode); raw("Y", 1.75, mode)
        ops.append(dict({"op": "vec.op2", "f": "mul", "in": ["X", "Y"], "out": "M"}, **post(0.007)))
        raw("S", 1.5, mode)
        ops.append(dict({"op": "vec.op1", "f": "square_and_negate_D", "in": ["S"], "out": "M"}, **post(0.007)))
        raw("N", 0.999, mode)
        ops.append(dict({"op": "vec.op1", "f": "negate_lazy", "in": ["N"], "out": "M"}, **post(1.0)))
        raw("D", 0.01, mode)
        ops.append(dict({"op": "vec.op1", "f": "diff_sum", "in": ["D"], "out": "M"}, **post(1.6)))
        # Neg subtracts from 16p; the documented "b < 4.0" is met by every caller with a wide margin, but a limb in
        # [16*(2^26-19), 2^30) would wrap, so the kernel's exact contract (limb <= the matching limb of 16p) is used
        raw("G", 3.99, mode)
        ops.append(dict({"op": "vec.op1", "f": "neg", "in": ["G"], "out": "M"}, **post(0.0002)))
        raw("R", 5.9, mode)              # reduce accepts any 32-bit lanes
        ops.append(dict({"op": "vec.op1", "f": "reduce", "in": ["R"], "out": "M"}, **post(0.0002)))
        raw("C", 0.007, mode)
        ops.append(dict({"op": "vec.mul_consts", "in": ["C"], "c": [121666, 121666, 2 * 121666, 2 * 121665], "out": "M"}, **post(0.007)))
        ops.append(dict({"op": "vec.mul_consts", "in": ["C"], "c": [2**18 - 1] * 4, "out": "M"}, **post(0.007)))
    return ops


def gen_sparse_scalars(rng, quick):
    """scalar multiplication / wide reduction on operands with one bit in each of two limbs (every pair of limb positions of
    the 29-bit and of the 52-bit layout): the Karatsuba-style cross terms of the 32-bit backend cancel or wrap only for such operands"""
    ops = []
    def two(bits, nl):
        i, j = rng.sample(range(nl), 2)
        return (1 << min(252, bits * i + rng.randrange(bits))) | (1 << min(252, bits * j + rng.randrange(bits)))
    for bits, nl in ((29, 9), (52, 5)):
        pairs = [(i, j, k, l) for i in range(nl) for j in range(i, nl) for k in range(nl) for l in range(k, nl)]
        if quick:
            pairs = rng.sample(pairs, min(len(pairs), 500))
        for (i, j, k, l) in pairs:
            a = ((1 << min(252, bits * i + rng.randrange(bits))) | (1 << min(252, bits * j + rng.randrange(bits)))) % L
            b = ((1 << min(252, bits * k + rng.randrange(bits))) | (1 << min(252, bits * l + rng.randrange(bits)))) % L
            ops.append({"op": "sc.mul", "in": [le(a), le(b)], "out": "S"})
    for a, b in ((2**174 + 2**232, 2**145 + 2**232), (2**232 + 2**203, 2**232 + 2**116), (L - 1, L - 1), (2**252, 2**252)):
        ops.append({"op": "sc.mul", "in": [le(a % L), le(b % L)], "out": "S"})
    for _ in range(200 if quick else 3000):
        ops.append({"op": "sc.from_bytes_mod_order_wide", "in": [le(rng.getrandbits(512), 64)], "out": "S"})
        ops.append({"op": "sc.mul", "in": [le(rng.randrange(L)), le(rng.randrange(L))], "out": "S"})
    return ops


def gen_big_msm(rng, n):
    """one multiscalar multiplication with n terms (the radix-2^8 Pippenger regime starts at 800) whose scalars contain
    the extreme digits -128 / 127 / 128; cheap for the specification: all points are small multiples of one point"""
    ops = [{"op": "reset"}, {"op": "ed.mul_base", "in": [le(rng.randrange(1, L))], "out": "M0"}, {"op": "ed.basepoint", "out": "Q"}]
    names = ["M0"]
    for i in range(1, n):
        ops.append({"op": "ed.add", "in": [names[-1], "Q"], "out": "M%d" % i})
        names.append("M%d" % i)
    sc = []
    for i in range(n):
        sc.append(le(rng.choice([128, 127, 129, 255, 256, 128 << 8, 128 << 16, (128 << 240) % L, rng.randrange(1 << 16), 0, 1])))
    for op in ("ed.vartime_multiscalar_mul", "ed.optional_multiscalar_mul"):
        ops.append({"op": op, "scalars": sc, "points": names, "out": "R"})
    return ops


def gen_formulas(backend, rng, quick):
    """coordinates with every limb at the type invariant's bound (Bounds.tla: Red), fed to every group formula"""
    b = BACKENDS[backend]
    nl = b["nlimbs"]
    ops = []
    if b["fiat"]:
        mx = [(1 << 51)] * 5 if nl == 5 else [(1 << 26) if i % 2 == 0 else (1 << 25) for i in range(10)]
    elif nl == 5:
        mx = [int(pow2(51) * Decimal("1.0001")) - 1] * 5
    else:
        mx = [int(pow2(26 if i % 2 == 0 else 25) * Decimal("1.0049")) - 1 for i in range(10)]
    for it in range(6 if quick else 60):
        regs = []
        for j in range(8):
            if it == 0:
                limbs = list(mx)
            else:
                limbs = [rng.choice([m, m - 1, rng.randrange(m // 2, m + 1), rng.randrange(0, m + 1)]) for m in mx]
            ops.append({"op": "fe.from_limbs", "in": [limb_bytes(limbs)], "out": "K%d" % j})
            regs.append("K%d" % j)
        ops.append({"op": "chk.formulas", "in": regs, "s": le(rng.getrandbits(256))})
    return ops


def run(ck):
    quick = ck.quick()
    ck.mc("MC_Bounds", "MC_Bounds_u64.cfg", note="u64 serial: group formulas, ladder, exponent chains, sqrt_ratio_i, Edwards / Ristretto / Montgomery encoders, decoders and maps; all chains, every kernel precondition", workers=6)
    ck.mc("MC_Bounds", "MC_Bounds_u32.cfg", note="u32 serial, same programs (b < 2.5 / 1.75 contracts)", workers=6)
    ck.mc("MC_Bounds", "MC_Bounds_neg2.cfg", note="kept counterexample: negation biased by 2p instead of 16p", workers=2, expect_violation=True)
    ck.mc("MC_Bounds", "MC_Bounds_neg3.cfg", note="kept counterexample (u32): Niels addition doubling T*d lazily puts four summands on the tight side of a multiplication", workers=2, expect_violation=True)
    ck.mc("MC_Bounds", "MC_Bounds_neg4.cfg", note="kept counterexample (u32): double_and_compress_batch with the factor two moved onto g = YY + XX", workers=2, expect_violation=True)
    ck.mc("MC_Bounds", "MC_Bounds_neg.cfg", note="kept counterexample: a subtraction that does not reduce breaks the next multiplication", workers=2, expect_violation=True)
    ck.mc("MC_BoundsAvx2", "MC_BoundsAvx2.cfg", note="AVX2 parallel formulas, per-lane factors; re-derives (1.01, 1.6, 2.33, 1.6)", workers=2)
    ck.mc("MC_BoundsAvx2", "MC_BoundsAvx2_neg.cfg", note="kept counterexample: a second lazy negation of a cached point", workers=2, expect_violation=True)
    ck.mc("MC_BoundsAvx2", "MC_BoundsAvx2_neg2.cfg", note="kept counterexample: negate_lazy applied twice in double()", workers=2, expect_violation=True)
    ck.mc("MC_BoundsIfma", "MC_BoundsIfma.cfg", note="IFMA parallel formulas: every multiplicand < 2^52, no 64-bit wrap, negate_lazy never underflows (32p), all chains", workers=2)
    ck.mc("MC_BoundsIfma", "MC_BoundsIfma_16p.cfg", note="kept counterexample: with negate_lazy's former constants (16p) limb 4 of a product exceeds them", workers=2, expect_violation=True)
    for c, what in (("neg1", "double() without the second reduction feeds unreduced multiplicands"), ("neg2", "add() without the reduction after diff_sum"),
                    ("neg3", "double() negating a sum of two squares")):
        ck.mc("MC_BoundsIfma", "MC_BoundsIfma_%s.cfg" % c, note="kept counterexample: " + what, workers=2, expect_violation=True)
    ck.mc("MC_LimbField", "MC_LimbField_61.cfg", note="toy kernels: no accumulator / carry / word overflow on every admissible representation", workers=8)
    ck.mc("MC_LimbField", "MC_LimbField_neg.cfg", note="kept counterexample: one more bit of headroom overflows", workers=8, expect_violation=True)
    ck.apalache("AP_Mul51", 2, "u64 mul: no accumulator / carry / word overflow for all limbs < 2^54 (the debug_assert bound)", cinit="CInit54")
    ck.apalache("AP_Mul51", 2, "kept counterexample: limbs < 2^55 overflow", cinit="CInit55", expect_violation=True, inv="InvBounds")
    backends = ALL_BACKENDS
    rel = build_many([(b, True, "release", ()) for b in backends], jobs=3)
    chk = build_many([(b, True, "checked", ()) for b in backends], jobs=3)
    master = c05.master(ck.rng, True)
    traces, pairs = [], []
    for b in backends:
        cid = cfg_id(b)
        kernel = c01.gen(b, ck.rng, quick)                       # (1) kernels at their contract boundary
        if b in ("v2", "v512"):
            kernel += [{"op": "reset"}] + c01.gen_vec("avx2", ck.rng, quick) + [{"op": "reset"}] + gen_avx2_bounds(ck.rng, quick)   # (2)
        if b == "v512":
            kernel += [{"op": "reset"}] + c01.gen_vec("ifma", ck.rng, quick)
        kernel += [{"op": "reset"}] + gen_formulas(b, ck.rng, quick)      # (3)
        kernel += [{"op": "reset"}] + gen_sparse_scalars(ck.rng, quick)   # scalar kernels on sparse operands
        if b in (("s64", "v2") if quick else ("s64", "s32", "v2")):
            kernel += gen_big_msm(ck.rng, 801)                             # radix-2^8 Pippenger in a checked build
        sp = os.path.join(ck.workdir, cid + ".kernel.script.ndjson")
        write_script(sp, kernel)
        tp = os.path.join(ck.workdir, cid + ".checked.kernel.trace.ndjson")
        run_driver(chk[cfg_id(b, True, "checked")], cid + ".checked", sp, tp)
        traces.append((cid + ".checked/kernels", tp))
        if b in ("v2", "v512"):       # the lane-bound tests also in the release build (SIMD wraps silently there too)
            tp2 = os.path.join(ck.workdir, cid + ".release.kernel.trace.ndjson")
            run_driver(rel[cid], cid, sp, tp2)
            traces.append((cid + "/kernels", tp2))
        # (4) checked = release on the master script
        sm = os.path.join(ck.workdir, "master.script.ndjson")
        write_script(sm, master)
        ta = os.path.join(ck.workdir, cid + ".release.master.trace.ndjson")
        tb = os.path.join(ck.workdir, cid + ".checked.master.trace.ndjson")
        run_driver(rel[cid], cid, sm, ta)
        run_driver(chk[cfg_id(b, True, "checked")], cid + ".checked", sm, tb)
        pairs.append((cid, ta, tb))
    ck.validate(traces, jobs=12, chunks=2)
    # checked vs release: every public observation and every panic field identical (TraceEquiv)
    tot_panics = 0
    for cid, ta, tb in pairs:
        ea, eb = read_trace(ta), read_trace(tb)
        if len(ea) != len(eb):
            raise ToolError("trace lengths differ for " + cid)
        merged = os.path.join(ck.workdir, cid + ".merged.ndjson")
        with open(merged, "w") as f:
            for x, y in zip(ea, eb):
                if x["op"] in ("info", "force_backend"):
                    continue
                tot_panics += 1 if y["panic"] else 0
                f.write(json.dumps({"i": x["i"], "op": x["op"], "cfgs": [cid, cid + ".checked"],
                                    "obs": [json.dumps(c05.public(x["obs"]), sort_keys=True), json.dumps(c05.public(y["obs"]), sort_keys=True)],
                                    "panic": ["", y["panic"]] if not x["panic"] else [x["panic"], y["panic"]]}) + "\n")
        v = validate_trace(merged, os.path.join(ck.workdir, "tv_equiv_" + cid), module="TraceEquiv")
        ck.traces += 1
        ck.states += v["states"]
        ck.transitions += v["events"]
        ck.events += v["events"]
        ck.cov.setdefault("checked_vs_release", []).append(dict(cfg=cid, requests=v["events"], mismatches=len(v["bad"])))
        for bd in v["bad"]:
            ck.add_violation("checked build differs from release build: %s request %s (%s)" % (cid, bd.get("i"), bd.get("op")), dict(mismatch=bd, merged=merged))
    ck.cov["panics_in_checked_builds"] = tot_panics
    ck.add_sample_events(traces[0][1], 2, pred=lambda e: e["op"].startswith("fe.") and len(json.dumps(e)) < 2500)
    ck.add_sample_events(traces[-1][1], 2, pred=lambda e: e["op"].startswith("vec.") and len(json.dumps(e)) < 2500)
    ck.assumptions += ["factor arithmetic over-approximates (limbs that cannot be maximal simultaneously are treated as if they could); an excess found only by the model would be a candidate, "
                       "confirmed only by a concrete execution (checked-build panic, wrong value, checked != release)", "the type invariant 'coordinates weakly reduced' is the one Bounds.tla shows inductive",
                       "BigNat.class", "TLC/SANY"]
    return ck.finish(rule="TLC: reachable bound-states of every formula (u64, u32, AVX2 lanes) and toy kernels; conformance: per backend, kernels from raw limbs at the contract boundary and group formulas on "
                     "all-limbs-at-the-bound coordinates in builds with overflow checks + debug assertions, AVX2 kernels from raw lanes at every documented pre-bound (value and post-bound), and the public-API "
                     "master script in checked vs release builds; distinct by (build, op, operand limbs)")
