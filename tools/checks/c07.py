"""C07 - X25519 and the Montgomery form follow RFC 7748.
TLC: MC_Montgomery (all 256 x 256 (k,u): RFC ladder = dalek ladder = Edwards multiple; map with exceptional points; Elligator; DH).
Conformance: x25519, Montgomery ops, typed DH, conversions, ed25519 -> x25519 key conversion."""
import os
import json
from vlib import *
import pyed

THOROUGH_ROUNDS = 4      # repetitions of the conformance part in the thorough tier (fresh random draws each)
SMALL_ORDER_U = [0, 1, 325606250916557431795983626356110631294008115727848805560023387167927233504,
                 39382357235489614581723060781553021112529911719440698176882885853963445705823, P - 1, P, P + 1]


def gen(rng, quick):
    ops = [{"op": "info"}]
    N = 1 if quick else 8
    us = list(SMALL_ORDER_U) + [u + 2**255 for u in SMALL_ORDER_U if u + 2**255 < 2**256] + [9, 2, 3, 2**255 - 1, 2**256 - 1, 2**255 - 20, 2**255 - 18, 2**254]
    us += [rng.getrandbits(256) for _ in range(20 * N)]              # half of them are on the twist
    ks = [0, 1, 7, 8, 2**254, 2**255 - 1, 2**256 - 1, 2**255, 2**254 + 8, L, L - 1] + [rng.getrandbits(256) for _ in range(6 * N)]
    # RFC 7748 section 5.2 vectors as inputs (expected values come from the specification)
    ks.append(from_le(bytes.fromhex("a546e36bf0527c9d3b16154b82465edd62144c0ac1fc5a18506a2244ba449ac4")))
    us.append(from_le(bytes.fromhex("e6db6867583030db3594c1a424b15f7c726624ec26b3353b10a903a6d0ab1c4c")))
    for u in us:
        for k in rng.sample(ks, 3 if quick else 6):
            ops.append({"op": "x.x25519", "in": [le(k), le(u)]})
            ops.append({"op": "mont.mul_clamped", "in": [le(u), le(k)]})
        s = rng.getrandbits(255)
        ops.append({"op": rng.choice(["mont.mul", "mont.mul_rev", "mont.mul_assign"]), "in": [le(u), le(s)]})
        ops.append({"op": "mont.mul", "in": [le(u), le(s | 1)]})                 # odd scalars exercise the final swap
        ops.append({"op": "mont.mul", "in": [le(u), le(rng.randrange(L))]})
        for sign in (0, 1):
            ops.append({"op": "mont.to_edwards", "in": [le(u)], "sign": sign, "out": "E"})
        ops.append({"op": "mont.eq", "in": [le(u), le((u % 2**255 % P))]})
        ops.append({"op": "mont.eq", "in": [le(u), le((u + P) % 2**256)]})
        ops.append({"op": "mont.eq", "in": [le(u), le(rng.getrandbits(256))]})
    # the iterated RFC test (k, u) <- (x25519(k, u), k): 1 and (thorough) 1000 iterations, as inputs
    k = u = from_le(bytes.fromhex("0900000000000000000000000000000000000000000000000000000000000000"))
    for i in range(1 if quick else 100):
        ops.append({"op": "x.x25519", "in": [le(k), le(u)]})
        # next inputs are computed by the plain-Python ladder below (input construction only)
        k, u = x25519_py(k, u), k
    # generic ladder on bit strings of every length 0..300
    for n in list(range(0, 20)) + [63, 64, 65, 127, 128, 254, 255, 256, 257, 300]:
        bits = [rng.randrange(2) for _ in range(n)]
        ops.append({"op": "mont.mul_bits_be", "in": [le(rng.choice(us))], "bits": bits})
        ops.append({"op": "mont.mul_bits_be", "in": [le(9)], "bits": [0] * (n // 2) + bits[: n - n // 2]})
    # fixed base
    for s in [0, 1, L - 1, 2**255 - 1] + [rng.getrandbits(255) for _ in range(5 * N)]:
        ops.append({"op": "mont.mul_base", "in": [le(s)]})
        ops.append({"op": "mont.mul_base_clamped", "in": [le(rng.getrandbits(256))]})
    # typed Diffie-Hellman, both parties, every secret type; small-order peers for the contributory check
    for _ in range(8 * N):
        a, b = rng.getrandbits(256), rng.getrandbits(256)
        pa = pyed_pub(a)
        pb = pyed_pub(b)
        for kind in ("ephemeral", "reusable", "static"):
            ops.append({"op": "x.dh", "in": [le(a), le(pb)], "kind": kind})
            ops.append({"op": "x.dh", "in": [le(b), le(pa)], "kind": kind})
    for u in SMALL_ORDER_U + [rng.getrandbits(256) for _ in range(4)]:
        for kind in ("ephemeral", "reusable", "static"):
            ops.append({"op": "x.dh", "in": [le(rng.getrandbits(256)), le(u % 2**256)], "kind": kind})
    # Edwards -> Montgomery, and the Ed25519 -> X25519 key conversion agreeing in a DH
    ops.append({"op": "reset"})
    for t in range(8):
        ops.append({"op": "ed.torsion", "k": t, "out": "T"})
        ops.append({"op": "ed.to_montgomery", "in": ["T"]})
    for _ in range(6 * N):
        ops.append({"op": "ed.mul_base", "in": [le(rng.randrange(L))], "out": "E"})
        ops.append({"op": "ed.torsion", "k": rng.randrange(8), "out": "T"})
        ops.append({"op": "ed.add", "in": ["E", "T"], "out": "E"})
        ops.append({"op": "ed.to_montgomery", "in": ["E"], "out": "M"})
        for sign in (0, 1):
            ops.append({"op": "mont.to_edwards", "in": ["M"], "sign": sign, "out": "E2"})
        ops.append({"op": "mont.mul", "in": ["M", le(rng.getrandbits(255))]})
    for _ in range(4 * N):
        seed = le(rng.getrandbits(256))
        ops.append({"op": "sig.keygen", "in": [seed]})
    return ops


def x_histories(ck, n):
    """spec -> code: TLC simulates Xproto.tla on the toy curve (MC_Xproto_sim.cfg); each behaviour - a key-agreement session
    with typed secrets, wire slots and an adversary - becomes a full-size script: toy secrets are lifted to random 32-byte
    strings that keep the bits clamping removes, injected u values to a full-size u of the same CLASS (zero, one, minus one,
    small order, on the curve, on the twist; non-canonical / top-bit aliases where they exist at full size)."""
    import vlib
    wd = os.path.join(ck.workdir, "x_sim")
    rc, out, wall = vlib._tlc(["-workers", "1", "-simulate", "num=%d" % n, "-depth", "40", "-seed", str(ck.seed), "-config", "MC_Xproto_sim.cfg", "MC_Xproto.tla"], {}, wd, 600)
    seen, hs = set(), []
    for h in tlc_prints(out, "HIST"):
        k = json.dumps(h)
        if k not in seen:
            seen.add(k)
            hs.append(h)
    if len(hs) > 2 * n:
        hs = ck.rng.sample(hs, 2 * n)
    if not hs:
        raise ToolError("Xproto simulation produced no behaviours:\n" + out[-2000:])
    rng = ck.rng

    def on_curve(u):
        v = (u * u * u + 486662 * u * u + u) % P
        return v == 0 or pow(v, (P - 1) // 2, P) == 1

    def lift_u(cls, noncanon, top):
        if cls == "zero":
            u = 0
        elif cls == "one":
            u = 1
        elif cls == "minus1":
            u = P - 1
        elif cls == "small":
            u = rng.choice(SMALL_ORDER_U[2:4])
        else:
            while True:
                u = rng.randrange(2, P - 1)
                if on_curve(u) == (cls == "curve") and u not in SMALL_ORDER_U:
                    break
        if noncanon and u + P < 2**255:
            u += P
        return u + (2**255 if top else 0)

    scripts, ndh = [], 0
    for h in hs:
        ops, lift = [{"op": "reset"}], {}
        for st in h:
            if st["op"] == "new":
                k = st["k"]
                if k not in lift:
                    lift[k] = (rng.getrandbits(256) & ~7 & ~(3 << 254)) | (k & 7) | ((k >> 6) << 254)
                ops.append({"op": "xs.new", "p": st["p"], "kind": st["kind"], "in": [le(lift[k])]})
            elif st["op"] == "publish":
                ops.append({"op": "xs.publish", "p": st["p"], "w": st["w"]})
            elif st["op"] == "inject":
                ops.append({"op": "xs.inject", "w": st["w"], "in": [le(lift_u(st["cls"], st["noncanon"], st["top"]))]})
            elif st["op"] == "alias":
                ops.append({"op": "xs.alias", "w": st["w"], "addp": bool(st["addp"]), "top": st["top"]})
            elif st["op"] == "copy":
                ops.append({"op": "xs.copy", "w": st["w"], "w2": st["w2"]})
            elif st["op"] == "dh":
                ndh += 1
                ops.append({"op": "xs.dh", "p": st["p"], "w": st["w"]})
            elif st["op"] == "drop":
                ops.append({"op": "xs.drop", "p": st["p"]})
        scripts.append(ops)
    ck.cov["x_sessions"] = dict(behaviours=len(scripts), dh_calls=ndh, tlc_wall_s=round(wall, 1))
    return scripts


def x25519_py(k, u):
    """plain RFC 7748 ladder, used only to produce the next inputs of the iterated test"""
    kb = bytearray(k.to_bytes(32, "little"))
    kb[0] &= 248; kb[31] &= 127; kb[31] |= 64
    k = int.from_bytes(kb, "little")
    x1 = (u % 2**255) % P
    x2, z2, x3, z3, swap = 1, 0, x1, 1, 0
    for t in range(254, -1, -1):
        kt = (k >> t) & 1
        swap ^= kt
        if swap:
            x2, x3, z2, z3 = x3, x2, z3, z2
        swap = kt
        A = (x2 + z2) % P; AA = A * A % P; B = (x2 - z2) % P; BB = B * B % P; E = (AA - BB) % P
        C = (x3 + z3) % P; Dd = (x3 - z3) % P; DA = Dd * A % P; CB = C * B % P
        x3 = (DA + CB) ** 2 % P; z3 = x1 * (DA - CB) ** 2 % P; x2 = AA * BB % P; z2 = E * (AA + 121665 * E) % P
    if swap:
        x2, x3, z2, z3 = x3, x2, z3, z2
    return x2 * pow(z2, P - 2, P) % P


def pyed_pub(k):
    return x25519_py(k, 9)


def run(ck):
    quick = ck.quick()
    ck.mc("MC_Montgomery", "MC_Montgomery_29.cfg", note="all 256x256 (k,u) incl. twist and small order; map; Elligator; DH", workers=8)
    if not quick:
        ck.mc("MC_Montgomery", "MC_Montgomery_101.cfg", note="p=101", workers=8)
        ck.mc("MC_Montgomery", "MC_Montgomery_109.cfg", note="p=109", workers=8)
    # ".nz": the three crates built WITHOUT their zeroize feature (the ladder has a cfg(feature = "zeroize") site in its body)
    if quick:
        specs = [("s64", True, ()), ("v2", True, ()), ("s64", False, ()), ("s64", True, ("nz",))]
    else:
        specs = [(b, t, ()) for b in ALL_BACKENDS for t in (True, False)] + [("s64", True, ("nz",)), ("s32", False, ("nz",)), ("v2", True, ("nz",))]
    bins = build_many([(b, t, "release", f) for b, t, f in specs], jobs=3)
    ck.mc("MC_Xproto", "MC_Xproto_29.cfg", note="key-agreement sessions to 4 steps: 2 parties x 3 secret types, 2 wire slots, adversary injecting 14 class "
          "representatives / re-encoding / copying; agreement, contributory <=> not small order, alias independence, consumed ephemeral secrets", workers=8)
    ck.mc("MC_Xproto", "MC_Xproto_neg.cfg", note="kept counterexample: a contributory test that only looks for u = 0 on the wire", workers=4, expect_violation=True)
    if not quick:
        ck.mc("MC_Xproto", "MC_Xproto_29_all.cfg", note="sessions to 3 steps with ALL 256 bytes as the adversary's alphabet", workers=8, timeout=3000)
        ck.mc("MC_Xproto", "MC_Xproto_101.cfg", note="sessions to 4 steps on the order-88 curve (l' = 11)", workers=8, timeout=3000)
        ck.mc("MC_Xproto", "MC_Xproto_109.cfg", note="sessions to 4 steps on the order-104 curve (l' = 13)", workers=8, timeout=3000)
    ops = gen(ck.rng, quick)
    for sc in x_histories(ck, 60):      # per round (the thorough tier repeats the round with fresh draws on every build)
        ops += sc
    sp = os.path.join(ck.workdir, "script.ndjson")
    spz = os.path.join(ck.workdir, "script.nz.ndjson")
    write_script(sp, ops)
    write_script(spz, [dict(o, kind="static") if o.get("op") == "xs.new" and o.get("kind") == "ed" else o for o in nz_filter(ops)])
    traces = []
    for b, t, f in specs:
        cid = cfg_id(b, t, "release", f)
        tp = os.path.join(ck.workdir, cid + ".trace.ndjson")
        run_driver(bins[cid], cid, spz if f else sp, tp)
        traces.append((cid, tp))
    ck.validate(traces)
    # binding demonstration (non-vacuity of the session conformance): one recorded session with the `contributory` flag of its
    # last Diffie-Hellman flipped must be rejected by the trace specification
    lines = open(traces[0][1]).readlines()
    idx = [i for i, l in enumerate(lines) if '"op":"reset"' in l] + [len(lines)]
    segs = [(a, b) for a, b in zip(idx, idx[1:]) if any('"xs.dh"' in l and '"live":true' in l for l in lines[a:b])]
    if segs and ck.round == 0:
        a, b = segs[-1]
        demo = [lines[0]] + lines[a:b]
        k = max(i for i, l in enumerate(demo) if '"xs.dh"' in l and '"live":true' in l)
        e = json.loads(demo[k])
        e["obs"]["contributory"] = not e["obs"]["contributory"]
        demo[k] = json.dumps(e) + "\n"
        dp = os.path.join(ck.workdir, "binding_demo.ndjson")
        open(dp, "w").writelines(demo)
        v = validate_trace(dp, os.path.join(ck.workdir, "tv_binding_demo"))
        if not any(x.get("op") == "xs.dh" for x in v["bad"]):
            raise ToolError("binding demonstration failed: a corrupted xs.dh event was accepted by TraceX")
        ck.cov["binding_demo"] = "session of %d events with one flipped `contributory`: rejected at line %s" % (len(demo), v["bad"][0].get("line"))
    ck.add_sample_events(traces[0][1], 4)
    ck.assumptions += ["BigNat.class / Hash.class overrides", "TLC/SANY", "plain-Python ladder only produces the inputs of the iterated test"]
    return ck.finish(rule="toy: all 65 536 (k,u) byte pairs (curve, twist, small order, non-canonical), all Edwards points and both signs; full size: the seven "
                     "small-order u with +p / +2^255 aliases, twist points, RFC 7748 vectors and iterated inputs, bit strings of length 0..300, typed DH for the "
                     "three secret types both ways, conversions both ways; distinct by (build, op, operand bytes)")
