"""C12 - every precomputed constant and table entry equals its definition.
Finite, enumerated completely at full size (no toy model needed): the hook dumps every crate-private constant and every raw
table entry per build; TLC (TraceVec.tla) converts limbs with the build's radix schedule and compares with the definitions.
Independently each table entry is SELECTED through the public API (single non-zero digit scalars) under every build and dispatch."""
import os
from vlib import *


THOROUGH_ROUNDS = 1      # repetitions of the conformance part in the thorough tier (fresh random draws each)
def gen(backend, tables, forced=None):
    ops = [{"op": "info"}]
    if forced:
        ops.append({"op": "force_backend", "kind": forced})
    ops.append({"op": "const.public"})
    ops.append({"op": "const.dump"})
    if tables:
        for i in range(32):
            ops.append({"op": "reset"})
            for j in range(8):
                ops.append({"op": "const.table_entry", "ti": i, "tj": j})
                # the same entry selected through the public API: one non-zero radix-16 digit at position 2i
                s = (j + 1) << (8 * i)
                if s < 2**255:
                    ops.append({"op": "ed.mul_base", "in": [le(s)], "out": "R"})
                    ops.append({"op": "ed.table_static", "in": [le(s)], "radix": 16, "out": "R"})
                # odd digit position (same table, then the multiplication by 16)
                s2 = (j + 1) << (8 * i + 4)
                if s2 < 2**255:
                    ops.append({"op": "ed.mul_base", "in": [le(s2)], "out": "R"})
        for k in range(64):
            if k % 8 == 0:
                ops.append({"op": "reset"})
                ops.append({"op": "ed.identity", "out": "O"})
            ops.append({"op": "const.odd_entry", "k": k})
            if backend in ("v2", "v512"):
                ops.append({"op": "const.vec_odd_entry", "k": k, "kind": "avx2"})
            if backend == "v512":
                ops.append({"op": "const.vec_odd_entry", "k": k, "kind": "ifma"})
    # entries selected through the double-base multiplication: b odd < 128 (digit b), and 256 - c (digit -c)
    for k in range(64):
        if k % 8 == 0:
            ops.append({"op": "reset"})
            ops.append({"op": "ed.identity", "out": "O"})
        ops.append({"op": "ed.vartime_double_scalar_mul_basepoint", "in": [le(0), "O", le(2 * k + 1)], "out": "R"})
        ops.append({"op": "ed.vartime_double_scalar_mul_basepoint", "in": [le(0), "O", le(256 - (2 * k + 1))], "out": "R"})
    return ops


def run(ck):
    quick = ck.quick()
    specs = [(b, True) for b in ALL_BACKENDS] + [("s64", False), ("v2", False)]
    if not quick:
        specs += [(b, False) for b in ("s32", "f64", "f32", "v512")]
    bins = build_many([(b, t, "release", ()) for b, t in specs], jobs=4)
    traces = []
    for b, t in specs:
        cid = cfg_id(b, t)
        variants = [(cid, None)]
        if b in ("v2", "v512"):
            variants.append((cid + "!serial", 1))
        if b == "v512":
            variants.append((cid + "!avx2", 2))
        for lab, forced in variants:
            ops = gen(b, t, forced)
            sp = os.path.join(ck.workdir, lab + ".script.ndjson")
            tp = os.path.join(ck.workdir, lab + ".trace.ndjson")
            write_script(sp, ops)
            run_driver(bins[cid], lab, sp, tp)
            traces.append((lab, tp))
    ck.validate(traces, jobs=12, chunks=4)
    per = {}
    for lab, tp in traces:
        ev = read_trace(tp)
        per[lab] = dict(table_entries=sum(1 for e in ev if e["op"] == "const.table_entry"), odd_entries=sum(1 for e in ev if e["op"] == "const.odd_entry"),
                        vector_entries=sum(1 for e in ev if e["op"] == "const.vec_odd_entry"),
                        constants=sum(len(e["obs"].get("consts", [])) for e in ev if e["op"] == "const.dump"),
                        selected_via_api=sum(1 for e in ev if e["op"].startswith("ed.")), dispatch=sorted({e.get("backend", 0) for e in ev}))
    ck.cov["entries_checked"] = per
    ck.cov["exhaustive"] = True
    ck.add_sample_events(traces[0][1], 3, pred=lambda e: e["op"].startswith("const.table") or e["op"] == "const.odd_entry")
    ck.assumptions += ["BigNat.class", "TLC/SANY", "the definitions: d = -121665/121666, B has y = 4/5 and non-negative x, l as in RFC 8032, sqrt(ad-1) and 1/sqrt(a-d) as listed in RFC 9496 (tools/gen_params.py; ASSUMEd against their equations in the spec modules)"]
    return ck.finish(rule="exhaustive: every entry of the radix-16 table (32 x 8), the affine odd-multiples table (64), the AVX2 and IFMA cached tables (64 each), every "
                     "crate-private field / scalar constant in each limb representation (u64, u32, fiat), the public base points and the eight torsion points; plus "
                     "every entry selected through fixed-base / double-base multiplication under each build and forced dispatch")
