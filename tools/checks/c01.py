"""C01 - field arithmetic is exact in every backend.
TLC: MC_Field (toy fields, all pairs of encodings) + MC_LimbField (toy limb kernels, all representations).
Conformance: every field op of every backend from raw limbs, judged by Field.tla at full size."""
import os
import json
from vlib import *

# inclusive per-limb maxima (even limb, odd limb) per backend and operand class
THOROUGH_ROUNDS = 4      # repetitions of the conformance part in the thorough tier (fresh random draws each)
def bounds(backend):
    b = BACKENDS[backend]
    if b["fiat"]:
        t = (1 << 51, 1 << 51) if b["bits"] == 64 else (1 << 26, 1 << 25)
        return dict(mul_l=t, mul_r=t, sq=t, addsub=t, enc=t)
    if b["bits"] == 64:
        m = ((1 << 54) - 1,) * 2
        return dict(mul_l=m, mul_r=m, sq=m, addsub=m, enc=((1 << 64) - 1,) * 2)
    y = (226050910, 113025455)           # 19*y fits in u32 (b < 1.75)
    return dict(mul_l=((1 << 28), (1 << 27)), mul_r=y, sq=y, addsub=((1 << 29) - 1, (1 << 28) - 1), enc=((1 << 32) - 1,) * 2)


def limb_bits(nl, i):
    return 51 if nl == 5 else (26 if i % 2 == 0 else 25)


def alphabet(nl, i, maxv, rng):
    bits = limb_bits(nl, i)
    c = {0, 1, (1 << bits) - 1, 1 << bits, (1 << bits) + 1, 1 << (bits - 1), maxv, maxv - 1, maxv // 2 + 1, 19, (1 << bits) - 19}
    c = sorted(x for x in c if 0 <= x <= maxv)
    return c


def rand_rep(nl, mx, rng):
    """a random admissible representation: per limb an alphabet member or a random value"""
    out = []
    for i in range(nl):
        m = mx[i % 2]
        r = rng.random()
        if r < 0.45:
            out.append(rng.choice(alphabet(nl, i, m, rng)))
        elif r < 0.75:
            out.append(rng.randrange(0, min(m, (1 << limb_bits(nl, i))) + 1))
        else:
            out.append(rng.randrange(0, m + 1))
    return out


def gen(backend, rng, quick):
    nl = BACKENDS[backend]["nlimbs"]
    B = bounds(backend)
    ops = [{"op": "info"}]
    N = 1 if quick else 8

    def lim(reg, limbs):
        ops.append({"op": "fe.from_limbs", "in": [limb_bytes(limbs)], "out": reg})

    def byt(reg, v):
        ops.append({"op": "fe.from_bytes", "in": [le(v % (1 << 256))], "out": reg})

    un_sq = ["fe.square", "fe.square2", "fe.invert", "fe.pow_p58", "fe.invsqrt", "fe.pow22501"]
    un_as = ["fe.neg", "fe.negate", "fe.reencode", "fe.is_negative", "fe.is_zero", "fe.cond_negate"]

    def unary(reg, cls):
        names = un_sq if cls == "sq" else un_as
        for op in names:
            o = {"op": op, "in": [reg], "out": "U"}
            if op == "fe.pow22501":
                o["out"] = ["U", "U2"]
            if op == "fe.cond_negate":
                o["c"] = rng.random() < 0.7
            ops.append(o)

    # 1. per-limb alphabet, one limb at a time against a background, then random crossings
    for cls in ("sq", "addsub", "enc"):
        mx = B[cls]
        for i in range(nl):
            for a in alphabet(nl, i, mx[i % 2], rng):
                for bg in (0, "max"):
                    limbs = [(0 if bg == 0 else mx[j % 2]) for j in range(nl)]
                    limbs[i] = a
                    lim("A", limbs)
                    if cls == "enc":
                        for op in ("fe.reencode", "fe.is_negative", "fe.is_zero"):
                            ops.append({"op": op, "in": ["A"], "out": "U"})
                    else:
                        unary("A", cls)
        for _ in range(60 * N):
            lim("A", rand_rep(nl, mx, rng))
            if cls == "enc":
                ops.append({"op": "fe.reencode", "in": ["A"], "out": "U"})
                ops.append({"op": "fe.is_negative", "in": ["A"], "out": "U"})
            else:
                unary("A", cls)

    # 2. binary ops on admissible pairs
    for _ in range(250 * N):
        lim("A", rand_rep(nl, B["mul_l"], rng))
        lim("B", rand_rep(nl, B["mul_r"], rng))
        ops.append({"op": rng.choice(["fe.mul", "fe.mul_assign"]), "in": ["A", "B"], "out": "C"})
        lim("A", rand_rep(nl, B["addsub"], rng))
        lim("B", rand_rep(nl, B["addsub"], rng))
        for op in ("fe.add", "fe.sub", "fe.add_assign", "fe.sub_assign", "fe.ct_eq"):
            ops.append({"op": op, "in": ["A", "B"], "out": "C"})
        for op in ("fe.cond_select", "fe.cond_assign", "fe.cond_swap"):
            o = {"op": op, "in": ["A", "B"], "out": "C", "c": rng.random() < 0.5}
            if op == "fe.cond_swap":
                o["out"] = ["C", "C2"]
            ops.append(o)
    # all limbs at the multiplication bound simultaneously
    lim("A", [B["mul_l"][j % 2] for j in range(nl)])
    lim("B", [B["mul_r"][j % 2] for j in range(nl)])
    ops.append({"op": "fe.mul", "in": ["A", "B"], "out": "C"})
    ops.append({"op": "fe.mul", "in": ["B", "B"], "out": "C"})
    lim("A", [B["sq"][j % 2] for j in range(nl)])
    unary("A", "sq")

    # 3. values around p and 2^255 through bytes; non-canonical limb splits of the same values
    specials = [0, 1, 2, 18, 19, 20, P - 2, P - 1, P, P + 1, P + 18, P + 19, 2**255 - 1, 2**255, 2**255 + 18, 2**255 + 19,
                2**256 - 1, 2**256 - 19, 2**254, 2**253 + 7, (P - 1) // 2, (P + 1) // 2]
    for v in specials:
        byt("A", v)
        unary("A", "sq")
        unary("A", "addsub")
        w = v % (1 << 255)
        lim("B", split_limbs(w, nl))
        ops.append({"op": "fe.reencode", "in": ["B"], "out": "U"})
        ops.append({"op": "fe.ct_eq", "in": ["A", "B"], "out": "U"})
    # h in [p, 2^255): canonical encoding must subtract p exactly once; ripple carries
    full = [(1 << limb_bits(nl, i)) - 1 for i in range(nl)]
    for delta in range(0, 40):
        l2 = list(full)
        l2[0] = full[0] - delta if delta <= full[0] else 0
        lim("A", l2)
        ops.append({"op": "fe.reencode", "in": ["A"], "out": "U"})
        ops.append({"op": "fe.is_negative", "in": ["A"], "out": "U"})
        ops.append({"op": "fe.is_zero", "in": ["A"], "out": "U"})
    for _ in range(120 * N):
        byt("A", rng.getrandbits(256))
        unary("A", "sq")

    # 4. repeated squaring
    for k in (1, 2, 3, 5, 10, 20, 50, 100, 249, 250, 252):
        lim("A", rand_rep(nl, B["sq"], rng))
        ops.append({"op": "fe.pow2k", "in": ["A"], "out": "U", "k": k})

    # 5. square-root-of-ratio: the four cases, both root signs, both i multiples
    sqrtm1 = pow(2, (P - 1) // 4, P)
    for _ in range(40 * N):
        r = rng.randrange(1, P)
        v = rng.randrange(1, P)
        for u in (r * r * v % P, sqrtm1 * r * r * v % P, (P - r * r * v) % P, (P - sqrtm1 * r * r * v) % P, 0):
            for vv in (v, 0):
                byt("A", u)
                byt("B", vv)
                ops.append({"op": "fe.sqrt_ratio_i", "in": ["A", "B"], "out": "C"})
        lim("A", rand_rep(nl, B["sq"], rng))
        lim("B", rand_rep(nl, B["sq"], rng))
        ops.append({"op": "fe.sqrt_ratio_i", "in": ["A", "B"], "out": "C"})
        ops.append({"op": "fe.invsqrt", "in": ["B"], "out": "C"})
    for u, v in ((0, 0), (1, 0), (0, 1), (1, 1), (P - 1, 1), (1, P - 1), (4, 1), (2, 1)):
        byt("A", u)
        byt("B", v)
        ops.append({"op": "fe.sqrt_ratio_i", "in": ["A", "B"], "out": "C"})

    # 6. batch inversion, zeros included, lengths 0..9
    for n in list(range(0, 10)) + ([] if quick else [17, 64]):
        regs = []
        for j in range(n):
            rn = "V%d" % j
            if rng.random() < 0.25:
                byt(rn, rng.choice([0, P, 2**255 - 19]))
            else:
                lim(rn, rand_rep(nl, B["sq"], rng))
            regs.append(rn)
        ops.append({"op": "fe.batch_invert", "in": regs, "out": regs})
    return ops


AVX2_SHUFFLES = ["AAAA", "BBBB", "CACA", "DBBD", "ADDA", "CBCB", "ABAB", "BADC", "BACD", "ABDC"]
AVX2_LANES = ["C", "D", "AB", "AC", "CD", "AD", "BC", "ABCD"]
IFMA_LANES = ["D", "C", "AB", "AC", "AD", "BCD"]


def perm_of(name):
    return ["ABCD".index(c) + 1 for c in name]


def mask_of(name):
    return [1 if c in name else 0 for c in "ABCD"]


def gen_vec(kind, rng, quick):
    """4-lane vector field of the AVX2 / IFMA backend: every operation, independent lane contents, documented bound chains"""
    ops = [{"op": "vec.available"}]
    lanes = AVX2_LANES if kind == "avx2" else IFMA_LANES
    weak = ((1 << 52) - 1,) * 2          # FieldElement51 inputs of new(): weakly reduced serial limbs

    def fe(reg, style):
        if style == "bytes":
            ops.append({"op": "fe.from_bytes", "in": [le(rng.getrandbits(256))], "out": reg})
        else:
            limbs = []
            for i in range(5):
                limbs.append(rng.choice([0, 1, (1 << 51) - 1, 1 << 51, (1 << 51) + 1, (1 << 51) + rng.getrandbits(40), (1 << 52) - 1, rng.getrandbits(51), rng.getrandbits(52), (1 << 26) - 1, 1 << 26, ((1 << 25) - 1) << 26]))
            ops.append({"op": "fe.from_limbs", "in": [limb_bytes(limbs)], "out": reg})

    def new(reg):
        for j in range(4):
            fe("L%d" % j, rng.choice(["bytes", "limbs", "limbs"]))
        ops.append({"op": "vec.new", "kind": kind, "in": ["L0", "L1", "L2", "L3"], "out": reg})

    def op1(f, a, out, arg=None):
        o = {"op": "vec.op1", "f": f, "in": [a], "out": out}
        if arg:
            o["arg"] = arg
            o["perm"] = perm_of(arg)
        ops.append(o)

    def op2(f, a, b, out, arg=None):
        o = {"op": "vec.op2", "f": f, "in": [a, b], "out": out}
        if arg:
            o["arg"] = arg
            o["mask"] = mask_of(arg)
        ops.append(o)

    for it in range(25 if quick else 300):
        new("A")
        new("B")
        if kind == "ifma":
            op1("reduce", "A", "Ar"); op1("reduce", "B", "Br")
            a, b = "Ar", "Br"
        else:
            a, b = "A", "B"
        op2("mul", a, b, "M")
        op1("square_and_negate_D" if kind == "avx2" else "square", a, "S")
        op1("diff_sum", a, "DS")
        op1("negate_lazy", a, "NL")
        op2("add", a, b, "AD")
        op1("reduce", "DS", "DSr")
        op1("reduce", "AD", "ADr")
        op1("neg", "ADr" if kind == "ifma" else "AD", "NG")
        if kind == "avx2":
            op2("mul", "DS", b, "M2")           # lhs with b < 1.6 excess
            op2("mul", "AD", "NL", "M3")        # both lazily grown
            op1("square_and_negate_D", "AD", "S2")
        else:
            op2("mul", "DSr", "ADr", "M2")
            op1("reduce", "M", "Mr")
            op1("square", "Mr", "S2")
        ops.append({"op": "vec.mul_consts", "in": [a], "c": [121666, 121666, 2 * 121666, 2 * 121665], "out": "MC"})
        ops.append({"op": "vec.mul_consts", "in": [b], "c": [rng.getrandbits(17) for _ in range(4)], "out": "MC"})
        sh = rng.sample(AVX2_SHUFFLES, 3) if it else AVX2_SHUFFLES
        for name in sh:
            op1("shuffle", rng.choice([a, "M"]), "SH", name)
        for name in (rng.sample(lanes, 2) if it else lanes):
            op2("blend", a, b, "BL", name)
        # chains: results feed further operations
        op1("reduce", "M", "Mr")
        op2("mul", "Mr" if kind == "ifma" else "M", b, "M4")
        op1("diff_sum", "Mr" if kind == "ifma" else "M", "DS2")
    if kind == "ifma":
        ops += gen_ifma_extreme(rng)
    return ops


def ifma_unreduce(red):
    """limbs of an F51x4Unreduced whose reduction has exactly the limbs `red` (each at most 2^51 - 1 + its carry-in)"""
    H = 1 << 51
    c = [0] * 5                                   # c[k]: carry out of limb k
    low = [0] * 5
    for k in range(1, 5):
        c[k - 1] = max(0, red[k] - (H - 1))
        low[k] = red[k] - c[k - 1]
    c[4] = (max(0, red[0] - (H - 1)) + 18) // 19
    low[0] = red[0] - 19 * c[4]
    assert all(0 <= l < H for l in low)
    return [low[k] + c[k] * H for k in range(5)]


def gen_ifma_extreme(rng):
    """products of admissible reduced operands whose limb 4 is as large as a directed search could make it (tools/ifma_extreme.json),
    followed by exactly what the point formulas do with a product: negate_lazy / diff_sum without a reduction in between"""
    pairs = json.load(open(os.path.join(os.path.dirname(os.path.abspath(__file__)), "..", "ifma_extreme.json")))["pairs"]
    ops = [{"op": "reset"}]
    for r in range(3):
        sel = [pairs[(4 * r + j) % len(pairs)] for j in range(4)]
        for side, reg in (("x", "A"), ("y", "B")):
            for j in range(4):
                ops.append({"op": "fe.from_limbs", "in": [limb_bytes(ifma_unreduce(sel[j][side]))], "out": "L%d" % j})
            ops.append({"op": "vec.new", "kind": "ifma", "in": ["L0", "L1", "L2", "L3"], "out": reg})
            ops.append({"op": "vec.op1", "f": "reduce", "in": [reg], "out": reg + "r"})
        for a, b in (("Ar", "Br"), ("Br", "Ar")):
            ops.append({"op": "vec.op2", "f": "mul", "in": [a, b], "out": "M"})
            ops.append({"op": "vec.op1", "f": "negate_lazy", "in": ["M"], "out": "NL"})
            ops.append({"op": "vec.op1", "f": "diff_sum", "in": ["M"], "out": "DS"})
            ops.append({"op": "vec.op1", "f": "shuffle", "in": ["M"], "out": "SH", "arg": "ABDC", "perm": perm_of("ABDC")})
            ops.append({"op": "vec.op1", "f": "diff_sum", "in": ["SH"], "out": "DS"})
            ops.append({"op": "vec.op1", "f": "reduce", "in": ["DS"], "out": "DSr"})
            ops.append({"op": "vec.op2", "f": "mul", "in": ["DSr", a], "out": "M2"})
        ops.append({"op": "vec.op1", "f": "square", "in": ["Ar"], "out": "S"})
        ops.append({"op": "vec.op1", "f": "negate_lazy", "in": ["S"], "out": "NL"})
    return ops


def run(ck):
    quick = ck.quick()
    # --- TLC: exhaustive toy models
    ck.mc("MC_Field", "MC_Field_29.cfg", note="GF(29): all 256x256 pairs of encodings", workers=8)
    ck.mc("MC_Field", "MC_Field_101.cfg", note="GF(101): all 256x256 pairs of encodings", workers=8)
    ck.mc("MC_ExpChain", "MC_ExpChain.cfg", note="exponent chains at full size", workers=1)
    ck.mc("MC_LimbField", "MC_LimbField_61.cfg", note="radix-2^3 x 2 limbs, p=61: every admissible representation of every pair", workers=8)
    ck.mc("MC_LimbField", "MC_LimbField_neg.cfg", note="kept counterexample: one more bit of headroom overflows", workers=8, expect_violation=True)
    if not quick:
        ck.mc("MC_LimbField", "MC_LimbField_251.cfg", note="radix-2^4 x 2 limbs, p=251", workers=8)
    # --- Apalache: the u64 kernels as transcribed, for ALL limb vectors at full size
    ck.apalache("AP_AsBytes51", 2, "u64 as_bytes returns the canonical representative for every five 64-bit limbs")
    ck.apalache("AP_AsBytes2625", 2, "u32 reduce + as_bytes returns the canonical representative for every ten 32-bit limbs (q in {0,1}, no u32 overflow)")
    ck.apalache("AP_Mul2625", 2, "u32 mul contract (accumulators < 2^64, value, output b < 0.007) for all limbs with x: b < 2.5, y: b < 1.75")
    ck.apalache("AP_Sq2625", 2, "u32 square / pow2k contract (square_inner term table: accumulators and carries < 2^64, 2x and 19x fit u32, value, output b < 0.007) for all limbs with b < 1.75")
    ck.apalache("AP_Sq2625_twice", 2, "u32 square2: the doubled coefficients still fit 64 bits for all limbs with b < 1.75")
    ck.apalache("AP_Sq2625_neg", 2, "kept counterexample: square2 on limbs with b < 2.5", expect_violation=True)
    ck.apalache("AP_MulIfma", 2, "AVX-512 IFMA mul / square (IfmaField.tla's structure, half-products abstracted): no 64-bit wrap and value = x*y mod p for ALL legal multiplicands (limbs < 2^52)")
    ck.apalache("AP_MulIfma_neg", 2, "kept counterexample: the part of a folded word above 2^52 forgotten", expect_violation=True)
    ck.apalache("AP_Mul2625_neg", 2, "kept counterexample: x with b < 3.5 overflows a 64-bit accumulator", expect_violation=True)
    ck.apalache("AP_Sq51", 2, "u64 pow2k round: value = the true square, accumulators < 2^128, carries < 2^64, post-bounds re-establish the precondition, for all limbs < 2^54", cinit="CInit54")
    ck.apalache("AP_Sq51", 2, "kept counterexample: limbs < 2^60 overflow", cinit="CInit60", expect_violation=True, inv="InvBounds")
    ck.apalache("AP_Mul51", 2, "u64 mul contract (value, accumulators < 2^128, carries < 2^64, post-bounds) for all limbs < 2^54", cinit="CInit54")
    ck.apalache("AP_Mul51", 2, "kept counterexample: the contract fails for limbs < 2^55", cinit="CInit55", expect_violation=True, inv="InvBounds")
    # --- conformance
    backends = ALL_BACKENDS
    bins = build_many([(b, True, "release", ()) for b in backends], jobs=3)
    traces = []
    for b in backends:
        cid = cfg_id(b)
        ops = gen(b, ck.rng, quick)
        if b in ("v2", "v512"):
            from checks import c11          # the AVX2 kernels at their documented pre-bounds (raw lanes): exactness there is C01's too
            ops += [{"op": "reset"}] + gen_vec("avx2", ck.rng, quick) + [{"op": "reset"}] + c11.gen_avx2_bounds(ck.rng, quick)
        if b == "v512":
            ops += [{"op": "reset"}] + gen_vec("ifma", ck.rng, quick)
        sp = os.path.join(ck.workdir, cid + ".script.ndjson")
        tp = os.path.join(ck.workdir, cid + ".trace.ndjson")
        write_script(sp, ops)
        run_driver(bins[cid], cid, sp, tp)
        traces.append((cid, tp))
    ck.validate(traces)
    for lab, tp in traces[:3]:
        ck.add_sample_events(tp, 2)
    ck.assumptions += ["BigNat.class (java.math.BigInteger) implements the BigNat.tla definitions (spec/selftest)",
                       "TLC/SANY", "limb bounds per backend as documented in the kernels (tools/checks/c01.py bounds())"]
    return ck.finish(rule="toy: TLC enumerates every pair of byte strings / every limb representation; full size: per backend, "
                     "per-limb alphabet {0,1,2^b-1,2^b,2^b+1,bound,...} x background, seeded random admissible representations, "
                     "values around p / 2^255, the four sqrt-ratio cases; one event = one real call, distinct by (backend, op, operand limbs)")
