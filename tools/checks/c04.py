"""C04 - every scalar-multiplication algorithm returns sum s_i P_i.
TLC: MC_Recode (all 16-bit scalars: reconstruction, ranges, carries), MC_ScalarMul (toy group: every algorithm = definition).
Conformance: digit arrays through the hook; every entry point under every build (tables on/off, forced dispatch)."""
import os
from vlib import *
import pyed


THOROUGH_ROUNDS = 1      # repetitions of the conformance part in the thorough tier (fresh random draws each)
def digit_scalars(rng, quick):
    s = [0, 1, 2**255 - 1, 2**255 - 2, 2**254, 2**252, L - 1, L, L + 1, 2 * L, 8 * L - 1 if 8 * L - 1 < 2**255 else 0]
    s.append(int("78" + "88" * 31, 16))        # every nibble 8 -> digits -8 with a carry chain into the top nibble 7
    s.append(int("7f" + "ff" * 31, 16))
    s.append(int("78" + "88" * 31, 16))
    s.append(int("0f" * 32, 16) & (2**255 - 1))
    s.append(int("f0" * 32, 16) & (2**255 - 1))
    for w in (5, 6, 7, 8):                      # digits -2^(w-1) everywhere; all-ones windows
        v = 0
        for i in range(0, 255, w):
            v |= (1 << (w - 1)) << i
        s.append(v & (2**255 - 1))
    for b in (63, 64, 65, 127, 128, 129, 191, 192, 193):   # windows straddling the 64-bit words
        for wdt in (3, 5, 8, 9):
            s.append((((1 << wdt) - 1) << (b - wdt // 2)) & (2**255 - 1))
        s.append(2**b)
        s.append(2**b - 1)
    s.append(2**255 - 129)                      # top byte 127, carry into it (radix 256 extra digit)
    s.append(int("7f" + "80" * 31, 16))
    for _ in range(20 if quick else 200):
        s.append(rng.getrandbits(255))
        s.append(rng.randrange(L))
        c = bytearray(rng.getrandbits(256).to_bytes(32, "little"))
        c[0] &= 248; c[31] &= 127; c[31] |= 64
        s.append(int.from_bytes(c, "little"))
    return [x for x in s if 0 <= x < 2**255]


def gen(rng, quick, tables, nmax, msm_only=False):
    """msm_only: just the multiscalar section (the builds without the zeroize feature, whose cfg sites are in Straus)"""
    if msm_only:
        full = gen(rng, quick, False, nmax)
        k = next(i for i, o in enumerate(full) if o["op"] == "reset" and full[i + 1].get("out") == "Q")
        return [{"op": "info"}] + full[k:]
    ops = [{"op": "info"}]
    # ---- 1. digit recodings
    for v in digit_scalars(rng, quick):
        ops.append({"op": "sc.as_radix_16", "in": [le(v)]})
        for w in (4, 5, 6, 7, 8):
            ops.append({"op": "sc.as_radix_2w", "in": [le(v)], "w": w})
        for w in (5, 8) + (() if quick else (6, 7)):
            ops.append({"op": "sc.non_adjacent_form", "in": [le(v)], "w": w})

    # ---- 2. single-point entry points
    scal = [0, 1, 2, 8, L - 1, L, L + 1, 2**252, 2**253 - 1, 2**254, 2**255 - 1, 2**255 - 19, int("78" + "88" * 31, 16), int("7f" + "ff" * 31, 16)]
    scal += [rng.getrandbits(255) for _ in range(4 if quick else 30)] + [rng.randrange(L) for _ in range(4 if quick else 30)]
    assert all(0 <= v < 2**255 for v in scal)          # Scalar invariant #1: documented domain of the unreduced entry points

    def mk(reg, k, t):
        ops.append({"op": "ed.mul_base", "in": [le(k % L)], "out": reg})
        if t % 8:
            ops.append({"op": "ed.torsion", "k": t % 8, "out": "TT"})
            ops.append({"op": "ed.add", "in": [reg, "TT"], "out": reg})
    pts = []
    ops.append({"op": "reset"})
    mk("P0", rng.randrange(1, L), 0); pts.append("P0")
    mk("P1", rng.randrange(1, L), rng.randrange(1, 8)); pts.append("P1")
    ops.append({"op": "ed.identity", "out": "P2"}); pts.append("P2")
    ops.append({"op": "ed.torsion", "k": 1, "out": "P3"}); pts.append("P3")
    ops.append({"op": "ed.basepoint", "out": "P4"}); pts.append("P4")
    while True:
        b = le(rng.getrandbits(256))
        if pyed.decompress(b) is not None:
            ops.append({"op": "ed.decompress", "in": [b], "out": "P5"}); pts.append("P5")
            break
    for s in scal:
        p = rng.choice(pts)
        ops.append({"op": rng.choice(["ed.mul", "ed.mul_rev", "ed.mul_assign", "ed.mul_owned"]), "in": [p, le(s)], "out": "R"})
        ops.append({"op": "ed.mul_base", "in": [le(s)], "out": "R"})
        ops.append({"op": "ed.vartime_double_scalar_mul_basepoint", "in": [le(s), rng.choice(pts), le(rng.choice(scal))], "out": "R"})
        ops.append({"op": "ed.mul_clamped", "in": [p, le(rng.getrandbits(256))], "out": "R"})
        ops.append({"op": "ed.mul_base_clamped", "in": [le(rng.getrandbits(256))], "out": "R"})
    for p in pts:
        ops.append({"op": "ed.mul", "in": [p, le(rng.getrandbits(255))], "out": "R"})
        ops.append({"op": "ed.vartime_double_scalar_mul_basepoint", "in": [le(rng.getrandbits(255)), p, le(rng.getrandbits(255))], "out": "R"})
    for v in (0, 2**256 - 1, 2**255, 7):
        ops.append({"op": "ed.mul_base_clamped", "in": [le(v)], "out": "R"})
        ops.append({"op": "ed.mul_clamped", "in": ["P1", le(v)], "out": "R"})
    # ---- 3. basepoint tables, every radix
    if tables:
        ops.append({"op": "reset"})
        mk("P0", rng.randrange(1, L), 0)
        mk("P1", rng.randrange(1, L), rng.randrange(1, 8))
        ops.append({"op": "ed.basepoint", "out": "P4"})
        for radix in (16, 32, 64, 128, 256):
            for s in [0, 1, L - 1, 2**255 - 1, 2**255 - 129, int("78" + "88" * 31, 16), rng.getrandbits(255), rng.randrange(L)]:
                ops.append({"op": "ed.table_static", "in": [le(s)], "radix": radix, "out": "R"})
                ops.append({"op": "ed.table", "in": [rng.choice(["P0", "P1", "P4"]), le(s)], "radix": radix, "out": "R", "op_mul": rng.random() < 0.5})
            ops.append({"op": "ed.table", "in": ["P1", le(rng.getrandbits(256))], "radix": radix, "out": "R", "clamped": True})
    # ---- 4. multiscalar, every size regime
    sizes = [0, 1, 2, 3, 8] + [n for n in (189, 190, 191, 499, 500, 501, 799, 800, 801) if n <= nmax]
    for n in sizes:
        ops.append({"op": "reset"})
        mk("Q", rng.randrange(1, L), rng.randrange(8))
        mk("M0", rng.randrange(1, L), 0)
        names = ["M0"]
        for i in range(1, n):
            # cheap-to-specify but varied points: M_i = 2*M_{i-1} + Q or M_{i-1} + Q
            if i % 3 == 0:
                ops.append({"op": "ed.double", "in": [names[-1]], "out": "T"})
                ops.append({"op": "ed.add", "in": ["T", "Q"], "out": "M%d" % i})
            else:
                ops.append({"op": "ed.add", "in": [names[-1], "Q"], "out": "M%d" % i})
            names.append("M%d" % i)
        names = names[:n]
        def scalars(k, full):
            out = []
            for i in range(k):
                if i < full or n <= 8:
                    out.append(le(rng.randrange(L)))
                else:
                    v = 0
                    for _ in range(rng.randrange(1, 5)):      # sparse scalars: few bits, all positions
                        v |= 1 << rng.randrange(0, 252)
                    out.append(le(v))
            return out
        for op in ("ed.multiscalar_mul", "ed.vartime_multiscalar_mul", "ed.optional_multiscalar_mul"):
            ops.append({"op": op, "scalars": scalars(n, 6), "points": names, "out": "R"})
        if n >= 1:
            ops.append({"op": "ed.identity", "out": "NONE_SRC"})
            ops.append({"op": "ed.decompress", "in": [le(2)], "out": "NN"})          # y = 2 is not on the curve -> None register
            withnone = list(names)
            withnone[rng.randrange(n)] = "NN"
            ops.append({"op": "ed.optional_multiscalar_mul", "scalars": scalars(n, 2), "points": withnone, "out": "R"})
        # precomputed Straus with every static/dynamic split (small n) or three splits (large n)
        splits = range(0, n + 1) if n <= 3 else ([0, n // 2, n] if n <= 8 else [n // 2])
        for k in splits:
            st, dy = names[:k], names[k:]
            for mode in ("mixed", "optional"):
                ns = k if rng.random() < 0.6 else rng.randrange(0, k + 1)    # fewer static scalars than points
                ops.append({"op": "ed.precomputed", "static_points": st, "static_scalars": scalars(ns, 2), "dynamic_scalars": scalars(len(dy), 2),
                            "dynamic_points": dy, "mode": mode, "out": "R"})
            ops.append({"op": "ed.precomputed", "static_points": st, "static_scalars": scalars(k, 2), "dynamic_scalars": [], "dynamic_points": [], "mode": "static", "out": "R"})
    # one multiscalar multiplication in the radix-2^8 Pippenger regime (>= 800 terms) whose scalars carry the extreme digits
    # -128 / 127 / 128 (cheap for the specification: the points are an arithmetic progression)
    if 8 < nmax < 801:
        n = 801
        ops += [{"op": "reset"}, {"op": "ed.mul_base", "in": [le(rng.randrange(1, L))], "out": "M0"}, {"op": "ed.basepoint", "out": "Q"}]
        names = ["M0"]
        for i in range(1, n):
            ops.append({"op": "ed.add", "in": [names[-1], "Q"], "out": "M%d" % i})
            names.append("M%d" % i)
        sc = [le(rng.choice([128, 127, 129, 255, 256, 128 << 8, 128 << 16, (128 << 240) % L, rng.randrange(1 << 16), 0, 1])) for _ in range(n)]
        ops.append({"op": "ed.vartime_multiscalar_mul", "scalars": sc, "points": names, "out": "R"})
    return ops


def run(ck):
    quick = ck.quick()
    ck.mc("MC_Recode", "MC_Recode_2.cfg", note="all 65 536 two-byte scalars: radix-16, radix-2^w (w=5..8), NAF(5), NAF(8)", workers=8)
    ck.mc("MC_Recode", "MC_Recode_neg.cfg", note="kept counterexample: radix-16 above 2^(8 LEN - 1) overflows the top digit", workers=2, expect_violation=True)
    if quick:
        ck.mc("MC_ScalarMul", "MC_ScalarMul_29_quick.cfg", note="order-40 group: every algorithm = definition for all 40 points x a 28-scalar alphabet (digit classes); small pair phase", workers=12)
    else:
        ck.mc("MC_ScalarMul", "MC_ScalarMul_29.cfg", note="order-40 group: every algorithm = definition for all points x all 7-bit scalars", workers=12, timeout=3000)
        ck.mc("MC_ScalarMul", "MC_ScalarMul_29_all.cfg", note="order-40 group, pair phase from every (point, scalar)", workers=12, timeout=3000)
        ck.mc("MC_ScalarMul", "MC_ScalarMul_101.cfg", note="order-88 group", workers=12, timeout=3000)
    ck.apalache("AP_Recode16", 65, "radix-16 recoding: reconstruction, digit ranges, top digit <= 8 for ALL scalars below 2^255")
    for w in (5, 6, 7, 8):
        ck.apalache("AP_Radix2w", 53, "radix-2^%d recoding (as_radix_2w): reconstruction, digit ranges, final carry for ALL scalars below 2^255" % w, cinit="C%d" % w)
    ck.apalache("AP_Radix2w", 33, "kept counterexample: for w = 8 the final carry can be 1 (the 33rd digit is needed)", cinit="C8", inv="InvNoExtraDigit", expect_violation=True)
    for w, c in ((5, "C5"), (8, "C8")):
        ck.apalache("AP_NafInd", 0, "NAF(%d): the invariant holds initially" % w, cinit=c, init="Init")
        ck.apalache("AP_NafInd", 1, "NAF(%d): val = rec + carry*wgt, digits odd and below 2^(w-1) is INDUCTIVE (any number of steps, any scalar)" % w, cinit=c, init="IndInit")
    nmax = 191 if quick else 801
    if quick:
        specs = [("s64", True, ()), ("s64", False, ()), ("v2", True, ()), ("v2", False, ())]
    else:
        specs = [(b, t, ()) for b in ALL_BACKENDS for t in (True, False)]
    # ".nz": built without the zeroize feature (both Straus copies have a cfg(feature = "zeroize") site in their bodies)
    specs += [("s64", True, ("nz",)), ("v2", True, ("nz",))]
    bins = build_many([(b, t, "release", f) for b, t, f in specs], jobs=4)
    traces = []
    for b, t, f in specs:
        cid = cfg_id(b, t, "release", f)
        ops = nz_filter(gen(ck.rng, quick, t, 8, msm_only=True)) if f else gen(ck.rng, quick, t, nmax)
        variants = [(cid, ops)]
        if b in ("v2", "v512") and t:
            # run-time dispatch forced to the serial copy (and, on v512, to the AVX2 copy)
            variants.append((cid + "!serial", [{"op": "force_backend", "kind": 1}] + ops))
            if b == "v512":
                variants.append((cid + "!avx2", [{"op": "force_backend", "kind": 2}] + ops))
        for lab, o in variants:
            sp = os.path.join(ck.workdir, lab + ".script.ndjson")
            tp = os.path.join(ck.workdir, lab + ".trace.ndjson")
            write_script(sp, o)
            run_driver(bins[cid], lab, sp, tp)
            traces.append((lab, tp))
    ck.validate(traces, jobs=12, chunks=3)
    # dispatcher decisions actually observed
    seen = {}
    for lab, tp in traces:
        seen[lab] = sorted({e.get("backend", 0) for e in read_trace(tp)})
    ck.cov["dispatch_observed"] = seen
    ck.add_sample_events(traces[0][1], 4, pred=lambda e: e["op"].startswith("ed.") and "mul" in e["op"] and len(json.dumps(e)) < 2500)
    ck.assumptions += ["BigNat.class override", "TLC/SANY", "tools/pyed.py only constructs inputs"]
    return ck.finish(rule="toy: every algorithm against repeated addition for all points of the full toy group and all scalars below 2^7; digit identities for all "
                     "16-bit scalars; full size: digit classes (all -8, -2^(w-1), word-straddling windows, 2^255-1, clamped), every entry point with reduced and "
                     "unreduced scalars on points with and without torsion, sizes 0..8 and around 190 (thorough: 500, 800), every static/dynamic split; "
                     "distinct by (build, op, scalars, points)")


import json
