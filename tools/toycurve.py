#!/usr/bin/env python3
"""Search helper: base point and order-8 point encodings for the toy curves (a=-1)."""
import sys
def params(q,d,l):
    def add(P,Q):
        x1,y1=P;x2,y2=Q
        den=d*x1*x2*y1*y2%q
        return ((x1*y2+x2*y1)*pow(1+den,-1,q)%q,(y1*y2+x1*x2)*pow(1-den,-1,q)%q)
    def mul(k,P):
        R=(0,1)
        for _ in range(k): R=add(R,P)
        return R
    pts=[(x,y) for x in range(q) for y in range(q) if (-x*x+y*y-1-d*x*x*y*y)%q==0]
    assert len(pts)==8*l,(len(pts),l)
    def order(P):
        n=1;R=P
        while R!=(0,1): R=add(R,P);n+=1
        return n
    enc=lambda P:P[1]|((P[0]&1)<<7)
    base=min((p for p in pts if order(p)==l),key=enc)
    t8=min((p for p in pts if order(p)==8),key=enc)
    return enc(base),enc(t8),base,t8
if __name__=="__main__":
    for q,d,l in [(29,27,5),(53,3,7),(101,12,11),(109,11,13)]:
        print(q,d,l,params(q,d,l))
