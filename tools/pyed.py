"""Plain-Python edwards25519 helpers used ONLY to construct inputs (never as an oracle)."""
P = 2**255 - 19
L = 2**252 + 27742317777372353535851937790883648493
D = (-121665 * pow(121666, -1, P)) % P
SQRT_M1 = pow(2, (P - 1) // 4, P)
if SQRT_M1 & 1:
    SQRT_M1 = P - SQRT_M1


def add(p, q):
    x1, y1 = p
    x2, y2 = q
    t = D * x1 * x2 * y1 * y2 % P
    return ((x1 * y2 + x2 * y1) * pow(1 + t, -1, P) % P, (y1 * y2 + x1 * x2) * pow(1 - t, -1, P) % P)


def neg(p):
    return ((-p[0]) % P, p[1])


def mul(k, p):
    r = (0, 1)
    while k:
        if k & 1:
            r = add(r, p)
        p = add(p, p)
        k >>= 1
    return r


def sqrt_ratio(u, v):
    """(ok, nonneg root) per the four-case contract"""
    u %= P
    v %= P
    if u == 0:
        return True, 0
    if v == 0:
        return False, 0
    q = u * pow(v, -1, P) % P
    def root(a):
        c = pow(a, (P + 3) // 8, P)
        if c * c % P == a:
            return c
        c = c * SQRT_M1 % P
        if c * c % P == a:
            return c
        return None
    r = root(q)
    if r is not None:
        return True, (r if r % 2 == 0 else P - r)
    r = root(SQRT_M1 * q % P)
    return False, (r if r % 2 == 0 else P - r)


def decompress(b):
    n = int.from_bytes(bytes(b), "little")
    sign = n >> 255
    y = (n & ((1 << 255) - 1)) % P
    ok, x = sqrt_ratio(y * y - 1, D * y * y + 1)
    if not ok:
        return None
    if sign:
        x = (-x) % P
    return (x, y)


def compress(p):
    return list(((p[1] | ((p[0] & 1) << 255))).to_bytes(32, "little"))


B = decompress(list((4 * pow(5, -1, P) % P).to_bytes(32, "little")))
T8 = decompress(list(bytes.fromhex("c7176a703d4dd84fba3c0b760d10670f2a2053fa2c39ccc64ec7fd7792ac037a")))
assert mul(L, B) == (0, 1) and mul(8, T8) == (0, 1) and mul(4, T8) != (0, 1)


def noncanonical_encodings():
    """all encodings with y in [p, 2^255) that decompress (y mod p < 19), both sign bits"""
    out = []
    for y in range(19):
        for s in (0, 1):
            b = list(((y + P) | (s << 255)).to_bytes(32, "little"))
            if decompress(b) is not None:
                out.append(b)
    return out


# ---- ristretto255 helpers (input construction only) -------------------------------------------
INVSQRT_A_MINUS_D = sqrt_ratio(1, (-1 - D) % P)[1]
SQRT_AD_MINUS_ONE = sqrt_ratio((-D - 1) % P, 1)[1]


def isneg(x):
    return (x % P) & 1


def cabs(x):
    x %= P
    return P - x if x & 1 else x


def ris_encode(pt):
    x0, y0 = pt
    z0, t0 = 1, x0 * y0 % P
    u1 = (z0 + y0) * (z0 - y0) % P
    u2 = x0 * y0 % P
    _, inv = sqrt_ratio(1, u1 * u2 * u2 % P)
    den1, den2 = inv * u1 % P, inv * u2 % P
    zinv = den1 * den2 * t0 % P
    if isneg(t0 * zinv):
        x, y, deninv = y0 * SQRT_M1 % P, x0 * SQRT_M1 % P, den1 * INVSQRT_A_MINUS_D % P
    else:
        x, y, deninv = x0, y0, den2
    if isneg(x * zinv):
        y = (-y) % P
    return list(cabs(deninv * (z0 - y)).to_bytes(32, "little"))


def ris_decode(b):
    n = int.from_bytes(bytes(b), "little")
    if n >= P or n & 1:
        return None
    s = n
    ss = s * s % P
    u1, u2 = (1 - ss) % P, (1 + ss) % P
    v = (-(D * u1 * u1) - u2 * u2) % P
    ok, inv = sqrt_ratio(1, v * u2 * u2 % P)
    denx = inv * u2 % P
    deny = inv * denx * v % P
    x = cabs(2 * s * denx)
    y = u1 * deny % P
    if not ok or isneg(x * y) or y == 0:
        return None
    return (x, y)


assert ris_encode(B) == list(bytes.fromhex("e2f2ae0a6abc4e71a884a961c500515f58e30b6aa582dd8db6a65945e08d2d76"))
assert ris_decode(ris_encode(mul(5, B))) is not None
