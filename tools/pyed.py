"""Plain-Python edwards25519 helpers used ONLY to construct inputs (never as an oracle)."""
P = 2**255 - 19
L = 2**252 + 27742317777372353535851937790883648493
D = (-121665 * pow(121666, -1, P)) % P
SQRT_M1 = pow(2, (P - 1) // 4, P)
if SQRT_M1 & 1:
    SQRT_M1 = P - SQRT_M1


def add(p, q):
    x1, y1 = p
    x2, y2 = q
    t = D * x1 * x2 * y1 * y2 % P
    return ((x1 * y2 + x2 * y1) * pow(1 + t, -1, P) % P, (y1 * y2 + x1 * x2) * pow(1 - t, -1, P) % P)


def neg(p):
    return ((-p[0]) % P, p[1])


def mul(k, p):
    r = (0, 1)
    while k:
        if k & 1:
            r = add(r, p)
        p = add(p, p)
        k >>= 1
    return r


def sqrt_ratio(u, v):
    """(ok, nonneg root) per the four-case contract"""
    u %= P
    v %= P
    if u == 0:
        return True, 0
    if v == 0:
        return False, 0
    q = u * pow(v, -1, P) % P
    def root(a):
        c = pow(a, (P + 3) // 8, P)
        if c * c % P == a:
            return c
        c = c * SQRT_M1 % P
        if c * c % P == a:
            return c
        return None
    r = root(q)
    if r is not None:
        return True, (r if r % 2 == 0 else P - r)
    r = root(SQRT_M1 * q % P)
    return False, (r if r % 2 == 0 else P - r)


def decompress(b):
    n = int.from_bytes(bytes(b), "little")
    sign = n >> 255
    y = (n & ((1 << 255) - 1)) % P
    ok, x = sqrt_ratio(y * y - 1, D * y * y + 1)
    if not ok:
        return None
    if sign:
        x = (-x) % P
    return (x, y)


def compress(p):
    return list(((p[1] | ((p[0] & 1) << 255))).to_bytes(32, "little"))


B = decompress(list((4 * pow(5, -1, P) % P).to_bytes(32, "little")))
T8 = decompress(list(bytes.fromhex("c7176a703d4dd84fba3c0b760d10670f2a2053fa2c39ccc64ec7fd7792ac037a")))
assert mul(L, B) == (0, 1) and mul(8, T8) == (0, 1) and mul(4, T8) != (0, 1)


def noncanonical_encodings():
    """all encodings with y in [p, 2^255) that decompress (y mod p < 19), both sign bits"""
    out = []
    for y in range(19):
        for s in (0, 1):
            b = list(((y + P) | (s << 255)).to_bytes(32, "little"))
            if decompress(b) is not None:
                out.append(b)
    return out


# ---- ristretto255 helpers (input construction only) -------------------------------------------
INVSQRT_A_MINUS_D = sqrt_ratio(1, (-1 - D) % P)[1]
SQRT_AD_MINUS_ONE = sqrt_ratio((-D - 1) % P, 1)[1]


def isneg(x):
    return (x % P) & 1


def cabs(x):
    x %= P
    return P - x if x & 1 else x


def ris_encode(pt):
    x0, y0 = pt
    z0, t0 = 1, x0 * y0 % P
    u1 = (z0 + y0) * (z0 - y0) % P
    u2 = x0 * y0 % P
    _, inv = sqrt_ratio(1, u1 * u2 * u2 % P)
    den1, den2 = inv * u1 % P, inv * u2 % P
    zinv = den1 * den2 * t0 % P
    if isneg(t0 * zinv):
        x, y, deninv = y0 * SQRT_M1 % P, x0 * SQRT_M1 % P, den1 * INVSQRT_A_MINUS_D % P
    else:
        x, y, deninv = x0, y0, den2
    if isneg(x * zinv):
        y = (-y) % P
    return list(cabs(deninv * (z0 - y)).to_bytes(32, "little"))


def ris_decode(b):
    n = int.from_bytes(bytes(b), "little")
    if n >= P or n & 1:
        return None
    s = n
    ss = s * s % P
    u1, u2 = (1 - ss) % P, (1 + ss) % P
    v = (-(D * u1 * u1) - u2 * u2) % P
    ok, inv = sqrt_ratio(1, v * u2 * u2 % P)
    denx = inv * u2 % P
    deny = inv * denx * v % P
    x = cabs(2 * s * denx)
    y = u1 * deny % P
    if not ok or isneg(x * y) or y == 0:
        return None
    return (x, y)


assert ris_encode(B) == list(bytes.fromhex("e2f2ae0a6abc4e71a884a961c500515f58e30b6aa582dd8db6a65945e08d2d76"))
assert ris_decode(ris_encode(mul(5, B))) is not None


# ---- Ed25519 helpers (input construction only; checked against RFC 8032 vectors below) -----------------
import hashlib


def clamp(b):
    b = bytearray(b)
    b[0] &= 248
    b[31] &= 127
    b[31] |= 64
    return int.from_bytes(b, "little")


def dom2(ph, ctx):
    return (b"SigEd25519 no Ed25519 collisions" + bytes([1, len(ctx)]) + bytes(ctx)) if ph else b""


def expand(seed):
    h = hashlib.sha512(bytes(seed)).digest()
    return clamp(h[:32]), h[32:]


def public(seed):
    a, _ = expand(seed)
    return bytes(compress(mul(a % L, B)))


def sign(seed, msg, ph=False, ctx=b""):
    a, prefix = expand(seed)
    A = public(seed)
    m = hashlib.sha512(bytes(msg)).digest() if ph else bytes(msg)
    r = int.from_bytes(hashlib.sha512(dom2(ph, ctx) + prefix + m).digest(), "little") % L
    R = bytes(compress(mul(r, B)))
    k = int.from_bytes(hashlib.sha512(dom2(ph, ctx) + R + A + m).digest(), "little") % L
    S = (r + k * a) % L
    return R + S.to_bytes(32, "little")


def challenge(R, A, msg, ph=False, ctx=b""):
    m = hashlib.sha512(bytes(msg)).digest() if ph else bytes(msg)
    return int.from_bytes(hashlib.sha512(dom2(ph, ctx) + bytes(R) + bytes(A) + m).digest(), "little") % L


RFC8032 = [  # (seed, public, message, signature)  RFC 8032 section 7.1 tests 1-3
    ("9d61b19deffd5a60ba844af492ec2cc44449c5697b326919703bac031cae7f60", "d75a980182b10ab7d54bfed3c964073a0ee172f3daa62325af021a68f707511a", "",
     "e5564300c360ac729086e2cc806e828a84877f1eb8e5d974d873e065224901555fb8821590a33bacc61e39701cf9b46bd25bf5f0595bbe24655141438e7a100b"),
    ("4ccd089b28ff96da9db6c346ec114e0f5b8a319f35aba624da8cf6ed4fb8a6fb", "3d4017c3e843895a92b70aa74d1b7ebc9c982ccf2ec4968cc0cd55f12af4660c", "72",
     "92a009a9f0d4cab8720e820b5f642540a2b27b5416503f8fb3762223ebdb69da085ac1e43e15996e458f3613d0f11d8c387b2eaeb4302aeeb00d291612bb0c00"),
    ("c5aa8df43f9f837bedb7442f31dcb7b166d38535076f094b85ce3a2e0b4458f7", "fc51cd8e6218a1a38da47ed00230f0580816ed13ba3303ac5deb911548908025", "af82",
     "6291d657deec24024827e69c3abe01a30ce548a284743a445e3680d7db5ac3ac18ff9b538d16f290ae67f760984dc6594a7c15e9716ed28dc027beceea1ec40a"),
]
RFC8032_PH = ("833fe62409237b9d62ec77587520911e9a759cec1d19755b7da901b96dca3d42", "ec172b93ad5e563bf4932c70e1245034c35467ef2efd4d64ebf819683467e2bf",
              "616263", "98a70222f0b8121aa9d30f813d683f809e462b469c7ff87639499bb94e6dae4131f85042463c2a355a2003d062adf5aaa10b8c61e636062aaad11c2a26083406")
for _s, _p, _m, _g in RFC8032:
    assert public(bytes.fromhex(_s)).hex() == _p and sign(bytes.fromhex(_s), bytes.fromhex(_m)).hex() == _g
assert sign(bytes.fromhex(RFC8032_PH[0]), bytes.fromhex(RFC8032_PH[2]), True, b"").hex() == RFC8032_PH[3]


def point_with_limb_pattern(rng, i, val, bits=51, nl=5):
    """a curve point whose non-negative x has limb i (radix 2^bits) equal to val: boundary representations for
    the conversions between serial and vector limb layouts (input construction only)"""
    for _ in range(200):
        x = rng.getrandbits(255) % P
        x = (x & ~(((1 << bits) - 1) << (bits * i))) | (val << (bits * i))
        x %= P
        if x & 1:
            continue
        # y^2 = (1 + x^2) / (1 - d x^2)
        ok, y = sqrt_ratio((1 + x * x) % P, (1 - D * x * x) % P)
        if ok and (-x * x + y * y - 1 - D * x * x * y * y) % P == 0:
            return (x, y)
    return None
