"""Plain-Python edwards25519 helpers used ONLY to construct inputs (never as an oracle)."""
P = 2**255 - 19
L = 2**252 + 27742317777372353535851937790883648493
D = (-121665 * pow(121666, -1, P)) % P
SQRT_M1 = pow(2, (P - 1) // 4, P)
if SQRT_M1 & 1:
    SQRT_M1 = P - SQRT_M1


def add(p, q):
    x1, y1 = p
    x2, y2 = q
    t = D * x1 * x2 * y1 * y2 % P
    return ((x1 * y2 + x2 * y1) * pow(1 + t, -1, P) % P, (y1 * y2 + x1 * x2) * pow(1 - t, -1, P) % P)


def neg(p):
    return ((-p[0]) % P, p[1])


def mul(k, p):
    r = (0, 1)
    while k:
        if k & 1:
            r = add(r, p)
        p = add(p, p)
        k >>= 1
    return r


def sqrt_ratio(u, v):
    """(ok, nonneg root) per the four-case contract"""
    u %= P
    v %= P
    if u == 0:
        return True, 0
    if v == 0:
        return False, 0
    q = u * pow(v, -1, P) % P
    def root(a):
        c = pow(a, (P + 3) // 8, P)
        if c * c % P == a:
            return c
        c = c * SQRT_M1 % P
        if c * c % P == a:
            return c
        return None
    r = root(q)
    if r is not None:
        return True, (r if r % 2 == 0 else P - r)
    r = root(SQRT_M1 * q % P)
    return False, (r if r % 2 == 0 else P - r)


def decompress(b):
    n = int.from_bytes(bytes(b), "little")
    sign = n >> 255
    y = (n & ((1 << 255) - 1)) % P
    ok, x = sqrt_ratio(y * y - 1, D * y * y + 1)
    if not ok:
        return None
    if sign:
        x = (-x) % P
    return (x, y)


def compress(p):
    return list(((p[1] | ((p[0] & 1) << 255))).to_bytes(32, "little"))


B = decompress(list((4 * pow(5, -1, P) % P).to_bytes(32, "little")))
T8 = decompress(list(bytes.fromhex("c7176a703d4dd84fba3c0b760d10670f2a2053fa2c39ccc64ec7fd7792ac037a")))
assert mul(L, B) == (0, 1) and mul(8, T8) == (0, 1) and mul(4, T8) != (0, 1)


def noncanonical_encodings():
    """all encodings with y in [p, 2^255) that decompress (y mod p < 19), both sign bits"""
    out = []
    for y in range(19):
        for s in (0, 1):
            b = list(((y + P) | (s << 255)).to_bytes(32, "little"))
            if decompress(b) is not None:
                out.append(b)
    return out
