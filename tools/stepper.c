/* C10, native observation: single-step the driver between its two markers and digest the sequence of instruction
 * addresses.  Unlike valgrind this executes the real instruction stream, so it also covers the AVX-512 IFMA build.
 *
 *   stepper <out.ndjson> <program> <args...>
 *
 * The driver (with VERIF_CT_TRAP=1) executes `int3` inside mark(); the first trap of a pair opens a window, the
 * second closes it.  Outside windows the child runs at full speed (PTRACE_CONT); inside, one PTRACE_SINGLESTEP per
 * instruction.  ASLR is disabled for the child so that addresses are comparable between runs.
 * One line per window: {"steps":N,"digest":"<fnv64>","blocks":["<fnv64 of each block of 4096 steps>",...]}
 * exit status: the child's, or 2 on a tracing error. */
#define _GNU_SOURCE
#include <errno.h>
#include <signal.h>
#include <stddef.h>
#include <stdint.h>
#include <stdio.h>
#include <stdlib.h>
#include <string.h>
#include <sys/personality.h>
#include <sys/ptrace.h>
#include <sys/types.h>
#include <sys/user.h>
#include <sys/wait.h>
#include <unistd.h>

#define FNV_OFF 0xcbf29ce484222325ULL
#define FNV_PRIME 0x100000001b3ULL
static inline uint64_t fnv(uint64_t h, uint64_t v) {
    for (int i = 0; i < 8; i++) { h ^= (v >> (8 * i)) & 0xff; h *= FNV_PRIME; }
    return h;
}

int main(int argc, char **argv) {
    if (argc < 3) { fprintf(stderr, "usage: stepper out program args...\n"); return 2; }
    FILE *out = fopen(argv[1], "w");
    if (!out) { perror("out"); return 2; }
    pid_t pid = fork();
    if (pid < 0) { perror("fork"); return 2; }
    if (pid == 0) {
        personality(ADDR_NO_RANDOMIZE);
        if (ptrace(PTRACE_TRACEME, 0, 0, 0) < 0) { perror("traceme"); _exit(2); }
        execv(argv[2], argv + 2);
        perror("execv");
        _exit(2);
    }
    int status;
    if (waitpid(pid, &status, 0) < 0 || !WIFSTOPPED(status)) { fprintf(stderr, "child did not stop at exec\n"); return 2; }
    ptrace(PTRACE_SETOPTIONS, pid, 0, PTRACE_O_EXITKILL);
    int inside = 0;
    uint64_t trap_rip = 0, steps = 0, dig = FNV_OFF, blk = FNV_OFF;
    uint64_t *blocks = NULL; size_t nblocks = 0, cap = 0;
    long sig = 0;
    const long rip_off = offsetof(struct user, regs.rip);
    for (;;) {
        if (ptrace(inside ? PTRACE_SINGLESTEP : PTRACE_CONT, pid, 0, sig) < 0) { perror("ptrace resume"); return 2; }
        sig = 0;
        if (waitpid(pid, &status, 0) < 0) { perror("waitpid"); return 2; }
        if (WIFEXITED(status)) { fclose(out); return WEXITSTATUS(status); }
        if (WIFSIGNALED(status)) { fclose(out); fprintf(stderr, "child killed by signal %d\n", WTERMSIG(status)); return 2; }
        if (!WIFSTOPPED(status)) continue;
        int s = WSTOPSIG(status);
        if (s != SIGTRAP) { sig = s; continue; }          /* pass other signals through */
        errno = 0;
        uint64_t rip = (uint64_t)ptrace(PTRACE_PEEKUSER, pid, rip_off, 0);
        if (errno) { perror("peekuser"); return 2; }
        if (!inside) {
            /* int3 hit while running freely: opens a window */
            trap_rip = rip;
            inside = 1; steps = 0; dig = FNV_OFF; blk = FNV_OFF; nblocks = 0;
            continue;
        }
        if (rip == trap_rip) {
            /* the closing int3 (same instruction, in mark()) */
            inside = 0;
            fprintf(out, "{\"steps\":%llu,\"digest\":\"%016llx\",\"blocks\":[", (unsigned long long)steps, (unsigned long long)dig);
            for (size_t i = 0; i < nblocks; i++) fprintf(out, "%s\"%016llx\"", i ? "," : "", (unsigned long long)blocks[i]);
            fprintf(out, "]}\n");
            fflush(out);
            continue;
        }
        steps++;
        dig = fnv(dig, rip);
        blk = fnv(blk, rip);
        if (steps % 4096 == 0) {
            if (nblocks == cap) { cap = cap ? 2 * cap : 1024; blocks = realloc(blocks, cap * sizeof *blocks); if (!blocks) return 2; }
            blocks[nblocks++] = blk;
            blk = FNV_OFF;
        }
    }
}
