#!/usr/bin/env python3
"""Rewrite DESIGN.md section 14.9 from seeded/RESULTS.log (behaviour-preserving changes BN*: every run must say rc=0)."""
import re, collections, os
HERE = os.path.dirname(os.path.dirname(os.path.abspath(__file__)))
res = collections.OrderedDict()
for line in open(os.path.join(HERE, "seeded", "RESULTS.log")):
    m = re.match(r"^\S+ (\S+) (BN\d-\d) (C\d+) tier=(\w+) rc=(\d+)", line.strip())
    if m:
        res.setdefault(m.group(2), {})[m.group(3)] = m.group(5)
desc = {
 "BN1-1": "u64 `Sub` / `negate` add 32p instead of 16p",
 "BN1-2": "`pow22501` uses another addition chain (same cost)",
 "BN1-3": "`Scalar52::from_bytes_wide`: one Montgomery reduction of the nine-limb input, then `* RR` (no final add)",
 "BN2-1": "`LookupTable<ProjectiveNielsPoint>::from` builds even multiples by doubling",
 "BN2-2": "ladder doubling in the RFC 7748 form `E (AA + 121665 E)`; new internal constant",
 "BN2-3": "affine Niels tables built in extended coordinates and converted with one batched inversion",
 "BN3-1": "batch equation as `[sum z s]B == sum z R + sum (z h) A` (fixed-base + 2n-term multiscalar, points compared)",
 "BN3-2": "strict verification recomputes R and compares encodings instead of decompressing R first",
 "BN3-3": "`SigningKey` caches its expanded secret key (struct grows by 64 bytes, wiped on drop)",
 "BN4-1": "AVX2 `reduce64`: other carry schedule (half chains from limbs 0 and 5, 11 carries)",
 "BN4-2": "vector precomputed Straus recodes static scalars with NAF(8) instead of NAF(5)",
 "BN4-3": "AVX2 `CachedPoint::from` negates the T lane lazily before the scaling (one reduction less)",
 "BN5-1": "X25519 ephemeral / reusable secrets stored clamped; public keys from `k mod l` through `mul_base`",
 "BN5-2": "Ristretto `ct_eq`, `compress`, `decompress`, Elligator and batch compression re-associated by ring identities",
 "BN5-3": "`MontgomeryPoint::to_edwards` without inversion or wire round trip (returns Z != 1); Horner form in `elligator_encode`; `ct_eq` via subtraction",
 "BN6-1": "`Scalar29::mul_internal` as a plain schoolbook product (no Karatsuba, no wrapping words)",
 "BN6-2": "u32 `sub` / `negate` add 32p; `reduce` carries in two symmetric halves",
 "BN6-3": "fiat `square2` computed as `x * (2x)`",
 "BN7-1": "IFMA `negate_lazy` subtracts from 64p",
 "BN7-2": "IFMA reduction ripples the carries (limbs 1..4 strictly below 2^51)",
 "BN7-3": "IFMA `CachedPoint::from` negates T before the constant multiplication",
 "BN8-1": "the five curve25519-dalek serde impls share one generic visitor / serializer module",
 "BN8-2": "`check_scalar` compares S with l byte-wise and builds the scalar with `from_bytes_mod_order`; parsing order changed",
 "BN8-3": "ed25519-dalek key visitors share one sequence-filling helper",
}
rows = ["| id | change (every public behaviour preserved) | quick checks run | false alarms |", "|----|------|------|------|"]
for k in sorted(res):
    v = res[k]
    bad = [c for c, r in v.items() if r != "0"]
    rows.append("| %s | %s | %s | %s |" % (k, desc.get(k, ""), ", ".join(sorted(v)), ", ".join(bad) if bad else "none"))
sec = '''
### 14.9 Behaviour-preserving changes (testing for false alarms)

Twenty-four changes by eight independent sub-agents that were asked for the opposite of a seeded defect: internal
re-implementations a maintainer could make that preserve every observable behaviour (output bytes, accept / reject,
constant-time discipline, wiping, encodings) while changing limb representations, formulas, constants, tables, stored
forms of secrets, heap traffic or instruction counts (`seeded/BN*/patch.diff`, with each agent's argument and tests in
`README.md`). Each was run against the quick tier of the checks its area touches (`tools/run_benign.sh`; the first four
also against C01-C04 in a complete-sweep attempt that was too slow to finish). A check that reports a violation here
demands more than its property states. Over-demands found and removed in this exercise, two on my own review before the
runs and two because of it: the batch coefficients and the IFMA limbs (14.2); the storage of a zeroized point had to
equal `identity()`'s (now: must not depend on the secret); a dropped secret was searched for in ONE internal form, which
had to be present before the drop and zero after it (now: every plausible form - raw, clamped, expanded, reduced - must
be absent afterwards, and for types without a public part the bytes left behind must not depend on the secret; BN5-1
stores clamped bytes and would have been reported). With those corrections no check reports anything on any of the 24.

''' + "\n".join(rows) + "\n"
p = os.path.join(HERE, "DESIGN.md")
s = open(p).read()
if "### 14.9" in s:
    a = s.index("\n### 14.9")
    b = s.index("\n### 14.7")
    s = s[:a] + s[b:]
i = s.index("\n### 14.7")
s = s[:i] + sec + s[i:]
open(p, "w").write(s)
print("\n".join(rows))
