#!/bin/bash
# confirm_mutant.sh <seeded-dir> <crate> <demo-file> <rustflags> <features> [+toolchain]
# Confirms in a scratch worktree under /tmp: (1) the patch applies, compiles and the 138 baseline tests pass with it;
# (2) the demonstration fails with the patch; (3) the demonstration passes without it.  Writes <seeded-dir>/confirm.log.
set -u
SD=$(readlink -f "$1"); CRATE=$2; DEMO=$3; RF=${4:-}; FEAT=${5:-}; TC=${6:-}
NAME=$(basename "$SD")
WT=/tmp/confirm/$NAME
LOG=$SD/confirm.log
mkdir -p /tmp/confirm; rm -rf "$WT"; git -C /repo worktree prune
git -C /repo worktree add -q --detach "$WT" HEAD || exit 2
export CARGO_TARGET_DIR=$WT/target CARGO_NET_OFFLINE=true
{
echo "== confirm $NAME at $(git -C /repo rev-parse --short HEAD)"
cd "$WT"
git apply "$SD/patch.diff" || { echo "PATCH DOES NOT APPLY"; exit 2; }
echo "-- baseline suite with patch"
cargo nextest run --workspace --no-fail-fast --tool-config-file pb:/w/lib/nextest.toml --profile pb --test-threads 8 --offline 2>&1 | grep -E "Summary|FAIL|error" | head -20
TESTNAME=$(basename "$DEMO" .rs)
cp "$SD/demo/$DEMO" "$CRATE/tests/"
FARG=""; [ -n "$FEAT" ] && FARG="--features $FEAT"
echo "-- demo WITH patch (expect failure) RUSTFLAGS=[$RF] $FARG"
RUSTFLAGS="$RF" CARGO_TARGET_DIR=$WT/target/demo cargo $TC test --offline -p "$CRATE" $FARG --test "$TESTNAME" 2>&1 | grep -E "^test result|panicked|error(\[|:)" | head -8
git apply -R "$SD/patch.diff"
echo "-- demo WITHOUT patch (expect pass)"
RUSTFLAGS="$RF" CARGO_TARGET_DIR=$WT/target/demo cargo $TC test --offline -p "$CRATE" $FARG --test "$TESTNAME" 2>&1 | grep -E "^test result|panicked|error(\[|:)" | head -8
} > "$LOG" 2>&1
cd /; git -C /repo worktree remove --force "$WT"; git -C /repo worktree prune
tail -12 "$LOG"
