#!/bin/bash
# confirm_mutant_pkg.sh <seeded-dir> : for a seeded change whose demonstration is a standalone cargo package under demo/ with a
# path dependency "../../<crate>" (C10 trace comparisons): baseline suite with the patch; demo program with / without the patch.
set -u
SD=$(readlink -f "$1"); NAME=$(basename "$SD"); WT=/tmp/confirm/$NAME; LOG=$SD/confirm.log
mkdir -p /tmp/confirm; rm -rf "$WT"; git -C /repo worktree prune
git -C /repo worktree add -q --detach "$WT" HEAD || exit 2
export CARGO_TARGET_DIR=$WT/target CARGO_NET_OFFLINE=true
{
echo "== confirm $NAME at $(git -C /repo rev-parse --short HEAD)"
cd "$WT"
git apply "$SD/patch.diff" || { echo "PATCH DOES NOT APPLY"; exit 2; }
echo "-- baseline suite with patch"
cargo nextest run --workspace --no-fail-fast --tool-config-file pb:/w/lib/nextest.toml --profile pb --test-threads 8 --offline 2>&1 | grep -E "Summary|FAIL|error" | head -20
mkdir -p M/demo; cp -r "$SD/demo/." M/demo/
BIN=$(grep -m1 '^name' M/demo/Cargo.toml | sed 's/.*"\(.*\)".*/\1/')
echo "-- demo WITH patch (expect non-zero exit)"
( cd M/demo && CARGO_TARGET_DIR=$WT/target/demo cargo build --release --offline 2>&1 | grep -E "^error" | head -3; $WT/target/demo/release/$BIN 2>&1 | tail -6; echo "exit status: ${PIPESTATUS[0]}" )
git apply -R "$SD/patch.diff"
echo "-- demo WITHOUT patch (expect exit 0)"
( cd M/demo && CARGO_TARGET_DIR=$WT/target/demo cargo build --release --offline 2>&1 | grep -E "^error" | head -3; $WT/target/demo/release/$BIN 2>&1 | tail -4; echo "exit status: ${PIPESTATUS[0]}" )
} > "$LOG" 2>&1
cd /; git -C /repo worktree remove --force "$WT"; git -C /repo worktree prune
tail -14 "$LOG"
