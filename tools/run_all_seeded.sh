#!/bin/bash
# run_all_seeded.sh [jobs] : every seeded change against the check of its own property (quick tier; thorough if quick misses it),
# each in its own scratch copy under /tmp/seedrun; results are appended to seeded/RESULTS.log by run_seeded.sh
J=${1:-3}
cd /verif
one() {
  id=$1; pid=$(echo $id | sed -E 's/^(C[0-9]+).*/\1/')
  [ -f seeded/$id/patch.diff ] || return
  tools/run_seeded.sh $id $pid quick > /dev/null 2>&1
  if [ $? -eq 0 ]; then tools/run_seeded.sh $id $pid thorough > /dev/null 2>&1; fi
  rm -rf /tmp/seedrun/$id
}
export -f one
ls seeded | grep -E '^C[0-9]+' | xargs -P $J -I{} bash -c 'one {}'
