#!/usr/bin/env python3
"""Write seeded/<id>/meta.json for every confirmed seeded change and print the DESIGN.md table."""
import json, os, re, sys
HERE = os.path.dirname(os.path.dirname(os.path.abspath(__file__)))
S = os.path.join(HERE, "seeded")
M = {
 "C01-m1": ("C01", "u64 FieldElement51::negate subtracts from 8p instead of 16p", "hand-made limbs in [2^54-152, 2^54) (top of the documented headroom) through the raw-limb hook", {"C01": "caught (fe.neg at the limb alphabet's bound)"}),
 "C01-m2": ("C01", "AVX2 FieldElement2625x4::new masks the high half of each 51-bit limb to 25 bits", "AVX2 selected at run time and a serial limb >= 2^51 (weakly reduced coordinate)", {"C01": "caught after the vector-lane generator was added (vec.new); missed before", "C03": "caught after the boundary-representation point family was added"}),
 "C02-m1": ("C02", "Neg for &Scalar computes l - x: -0 is the non-canonical encoding of l", "the input 0", {"C02": "caught (sc.neg of 0)"}),
 "C02-m2": ("C02", "Scalar29::from_bytes_wide takes two bits from the wrong input word", "32-bit limb build and a 512-bit input whose bits 288/289 differ from 320/321", {"C02": "caught (s32 trace, sc.from_bytes_mod_order_wide)"}),
 "C03-m1": ("C03", "EdwardsPoint::ct_eq compares only the y coordinates (X clause duplicated as Y)", "comparing a point with its negative", {"C03": "caught (class-directed pair Q = -P, ed.eq)"}),
 "C03-m2": ("C03", "u64 EIGHT_TORSION[3] carries the T limbs of entry 1 (T*Z != X*Y)", "64-bit build; that entry used as an add/sub operand (or its raw coordinates inspected)", {"C03": "caught (ed.torsion: XY = ZT checked through the coordinate hook)", "C12": "would also be caught by const.public"}),
 "C04-m1": ("C04", "vector vartime double-base starts the NAF scan at position 254", "vector backend, unreduced scalar near 2^255 (legacy from_bits or clamped entry points)", {"C04": "caught (v2 trace, scalar 2^255-1)"}),
 "C04-m2": ("C04", "serial Pippenger skips None points instead of returning None", "serial backend, n >= 190, an input point that is None", {"C04": "caught (s64 trace, optional_multiscalar_mul with a None at n = 190)"}),
 "C05-m1": ("C05", "vector vartime double-base starts the NAF scan at position 253", "vector backend selected, unreduced scalar >= 2^254", {"C05": "caught (TraceEquiv: v2 differs from s64)", "C04": "caught"}),
 "C05-m2": ("C05", "AVX2 FieldElement2625x4::new masks the high limb half (same site as C01-m2, found independently)", "AVX2 selected; a point whose |x| has an all-ones 51-bit limb, then negation", {"C05": "MISSED at first; caught after the boundary-representation points were added to the master script", "C01": "caught", "C03": "caught"}),
 "C06-m1": ("C06", "Ristretto decompress: the y = 0 rejection tests u2 instead of y", "the single encoding s = p - 1", {"C06": "caught (rejection class y = 0)"}),
 "C06-m2": ("C06", "group::Group::is_identity for RistrettoPoint compares the Edwards representative", "group feature; an identity element represented by (0,-1) or (+-i, 0)", {"C17": "caught (grp.ris on 4-torsion translates of the identity)", "C06": "not applicable (driver built without the group feature)"}),
 "C07-m1": ("C07", "MontgomeryPoint::to_edwards rejects u = -1 by comparing raw bytes", "the encoding of p - 1 with bit 255 set", {"C07": "caught (u = -1 aliases)"}),
 "C07-m2": ("C07", "ReusableSecret::diffie_hellman reduces the clamped scalar mod l", "reusable_secrets feature; peer point outside the prime-order subgroup", {"C07": "caught (x.dh with small-order / twist peers)"}),
 "C08-m1": ("C08", "raw_sign_prehashed swaps context length and context in the nonce hash only", "digest feature, non-empty context, byte comparison with RFC 8032", {"C08": "caught (sig.sign_prehashed vs specification)"}),
 "C08-m2": ("C08", "from_keypair_bytes accepts an undecodable public half", "a public half that is not a curve point", {"C08": "caught (sig.from_keypair_bytes with undecodable halves)"}),
 "C09-m1": ("C09", "check_scalar fast path accepts S with top byte <= 0x10 (off by one)", "non-canonical S in [l, 2^252 + 2^248): S + l for an honest S below 2^248", {"C09": "MISSED at first (1 in 16 honest S); caught after the small-S family was added"}),
 "C09-m2": ("C09", "verify_prehashed_strict rejects only R = identity instead of every small-order R", "digest feature, strict prehashed entry point, small-order non-identity R with a mixed-order key", {"C09": "MISSED at first; caught after the small-order-R triples (pure and prehashed) were added"}),
 "C10-m1": ("C10", "MontgomeryPoint * Scalar skips leading zero bits of the secret scalar", "a reduced unclamped scalar times a Montgomery point", {}),
 "C10-m2": ("C10", "Scalar29::sub loses the optimisation barrier (RUSTSEC-2024-0344 shape); the compiler emits a branch", "32-bit limb build, release profile", {}),
 "C11-m1": ("C11", "serial Pippenger negates the digit -128 in i8", "serial backend, >= 800 terms, a scalar with the radix-256 digit -128, overflow checks on", {}),
 "C11-m2": ("C11", "Scalar29::mul_internal: a deliberate wrapping_add made a checked +", "32-bit limb build with overflow checks, sparse operands (c06 < c11 <= c06 + a8*b8)", {}),
 "C12-m1": ("C12", "one limb of AFFINE_ODD_MULTIPLES_OF_BASEPOINT[37].xy2d changed (u64)", "serial 64-bit table live, NAF(8) digit +-75, non-identity accumulator", {"C12": "caught (const.odd_entry k=37)"}),
 "C12-m2": ("C12", "u32 EIGHT_TORSION[5] duplicates entry 3", "32-bit limb build, a consumer reading index 5", {"C12": "caught (s32 const.public: not i * T[1], only 7 distinct points)"}),
 "C13-m1": ("C13", "the batch transcript absorbs R instead of S: the coefficients do not depend on S", "batch feature; two S values corrupted together with the publicly computable coefficients", {"C13": "MISSED at first (needs the attacker's knowledge of z); caught after the coefficient-binding check (hook + spec) was added"}),
 "C13-m2": ("C13", "serial Pippenger digit -128 lands in the wrong bucket (saturating_neg)", "batch feature, serial backend, batch of >= 400 signatures", {}),
 "C14-m1": ("C14", "batch_invert builds its scratch vector with push (grows by doubling)", "batch size n >= 5", {"C14": "caught (mem.run sc.batch_invert n = 8: tainted freed blocks)"}),
 "C14-m2": ("C14", "EphemeralSecret loses ZeroizeOnDrop (wipe moved into diffie_hellman)", "dropping the secret without completing the handshake", {"C14": "caught (mem.drop EphemeralSecret)"}),
 "C15-m1": ("C15", "verify_batch length check accepts spare keys, then the multiscalar assert panics", "batch feature, msgs == sigs < keys", {}),
 "C15-m2": ("C15", "vartime double-base always uses NAF width 8, also with the 8-entry table", "precomputed-tables off; almost any signature", {}),
 "C16-m1": ("C16", "Scalar deserialisation reduces instead of rejecting non-canonical input", "serde feature, a non-canonical encoding with the top bit clear", {"C16": "caught (serde.de scalar l, l+1)"}),
 "C16-m2": ("C16", "VerifyingKey visitor accepts exactly one trailing element", "serde feature, a sequence format (JSON), input one element too long", {"C16": "caught (serde.de vk, 33-element JSON array)"}),
 "C17-m1": ("C17", "GroupEncoding::from_bytes for RistrettoPoint drops the y = 0 check", "group feature, the single encoding s = p - 1", {"C17": "caught (grp.from_bytes)"}),
 "C17-m2": ("C17", "from_repr_vartime clears bit 255 instead of rejecting it", "group feature, input with bit 255 set and low bits below l", {"C17": "caught (ff.from_repr 2^255, 2^256-1 ...)"}),
 "C02d-m1": ("C02", "Scalar::batch_invert takes a fast path for n < 2 that never writes the inverse back", "a batch of exactly one element other than +-1", {"C02": "MISSED at first (the one-element batch drew 1 or l-1 half of the time, which are their own inverses); caught after short batches of generic elements were added"}),
 "C02d-m2": ("C02", "From<u128> for Scalar converts through u64 (drops the high half)", "x >= 2^64", {}),
 "C03d-m1": ("C03", "serial Sub<&AffineNielsPoint> keeps the denominators of Add (result off the curve)", "serial backend with precomputed tables; a negative NAF digit of the basepoint scalar in vartime double-base / precomputed Straus", {}),
 "C03d-m2": ("C03", "SubAssign<&EdwardsPoint> computes rhs - self", "the -= operator with P - Q not of order <= 2", {}),
 "C04d-m1": ("C04", "EdwardsPoint::mul_clamped and BasepointTable::mul_base_clamped reduce the clamped integer mod l (two cooperating sites: the existing test compares them with each other)", "a point with a torsion component", {}),
 "C04d-m2": ("C04", "serial constant-time Straus skips the top radix-16 column (0..63)", "serial backend; a scalar of about 2^251 or more (digit 63 is the recoding carry)", {}),
 "C06d-m1": ("C06", "RistrettoPoint::mul_base without precomputed tables goes through mul_base_clamped (X25519 clamping)", "a build without the precomputed-tables feature", {"C06": "MISSED at first (C06 built only with the tables feature; ristretto.rs has a cfg(not(precomputed-tables)) branch of its own); caught after a tables-off build was added to C06"}),
 "C06d-m2": ("C06", "ConstantTimeEq for CompressedRistretto ignores byte 31", "two encodings that differ only in the last byte, compared with ct_eq", {"C06": "MISSED at first (no event compared the compressed types themselves); caught after enc.eq (==, ct_eq, Hash of CompressedRistretto / CompressedEdwardsY on strings differing in one bit per byte position) was added to C06 and C16"}),
 "C07d-m1": ("C07", "EphemeralSecret::diffie_hellman multiplies by the clamped scalar reduced mod l (same idea as C07b-m1, found independently)", "a peer key outside the prime-order subgroup", {}),
 "C07d-m2": ("C07", "mul_bits_be: the final conditional swap moved under cfg(feature = \"zeroize\") (same idea as C07b-m2, found independently)", "a build without the zeroize feature and an odd scalar", {}),
 "C09d-m1": ("C09", "verify_prehashed_strict rejects only R = identity and weak keys (same idea as C09-m2 / C09c-m1, found independently)", "digest feature, prehashed strict entry point, small-order non-identity R with a mixed-order key", {}),
 "C09d-m2": ("C09", "non-legacy check_scalar gains a fast path with the legacy mask 224: S in [l, 2^253) is reduced and accepted (same effect as C09b-m1)", "an adversarial non-canonical S below 2^253", {}),
 "C14d-m1": ("C14", "Scalar::batch_invert builds its scratch vector with push (same idea as C14-m1 / C14c-m1, found independently)", "batch size n >= 5", {}),
 "C14d-m2": ("C14", "EdwardsPoint::zeroize drops the T line (same idea as C14b-m2, found independently)", "inspection of the wiped point's storage", {}),
 "C16d-m1": ("C16", "TryFrom<&[u8]> for SigningKey takes the first 32 bytes of a longer slice", "serde feature, a byte-string format (bincode), a payload longer than 32 bytes", {}),
 "C16d-m2": ("C16", "TryFrom<&pkcs8::KeypairBytes> for SigningKey treats an undecodable embedded public key as absent", "pkcs8 feature; a PKCS#8 v2 document whose public-key bytes do not decompress", {"C16": "MISSED at first (the driver was built without ed25519-dalek's pkcs8 feature, so PKCS#8 decoding was outside what the checks observed); caught after a pkcs8 build and the serde.pkcs8 events (honest, mismatched, undecodable, non-canonical embedded keys; SubjectPublicKeyInfo; round trips) were added"}),
 "C01b-m1": ("C01", "u32 sub_assign adds 2p instead of 16p before subtracting", "32-bit serial backend; a subtrahend with more than one excess bit (still inside the documented b < 1.75)", {"C01": "caught (s32 fe.sub at the limb alphabet's bound)", "C11": "the checked build also panics on it"}),
 "C01b-m2": ("C01", "IFMA F51x4Reduced::square pre-doubles x0 (madd52 reads only the low 52 bits)", "nightly unstable_avx512 build on an avx512ifma CPU; a reduced limb at or above 2^51", {"C01": "caught (v512 vec.op1 square on limbs produced by reduce at 2^51)"}),
 "C02b-m1": ("C02", "Scalar52::from_bytes_wide fuses the two Montgomery reductions (exceeds the reducer's input bound)", "low 260 bits within 0.2% of 2^260, large high part: about 1 in 1.2 million random inputs", {"C02": "caught by the reducer-bound family added after reading this change's class (first run: 1 hit of 400; family enlarged to 4000: 3+ hits); AP_MontReduce52 states the bound for the specification"}),
 "C02b-m2": ("C02", "Scalar52::sub masks (b[i] + borrow) to 52 bits: the borrow chain stops at an all-ones limb", "a subtrahend with an all-ones 52-bit limb and a borrow arriving from below (2^104-1 ...)", {"C02": "caught (systematic special-vs-fixed subtraction pairs)"}),
 "C04b-m1": ("C04", "LookupTableRadix64 scans 1..32 instead of 1..33: select(+-32) returns the identity", "the radix-64 basepoint table and a scalar whose radix-64 recoding has the digit -32", {"C04": "caught (ed.table_static radix 64 on the digit-class scalars)"}),
 "C04b-m2": ("C04", "serial precomputed Straus starts at the highest non-zero STATIC NAF digit only", "serial backend; a mixed call whose dynamic scalars are longer than every static scalar (or no static scalars)", {"C04": "caught (ed.precomputed with fewer / shorter static scalars)"}),
 "C06b-m1": ("C06", "double_and_compress_batch replaces a zero e*f*g*h by one before the batch inversion", "the identity held as the 4-torsion representative (+-i, 0): P - decode(encode(P))", {"C06": "caught (batch on identity representatives O2, O3 built by torsion_translate)"}),
 "C06b-m2": ("C06", "u32 SQRT_AD_MINUS_ONE replaced by the other root (p - value)", "32-bit limb build; from_uniform_bytes / from_hash / random return the negated element", {"C06": "caught in the thorough tier (s32 build)", "C12": "caught in the quick tier (const.dump on s32)", "C05": "caught (s32 differs from the other configurations)"}),
 "C03b-m1": ("C03", "serial ProjectivePoint::as_extended returns (X, Y, Z, XY): T inconsistent unless Z = 1", "serial build; result of vartime double-base / Straus used as an operand later", {}),
 "C03b-m2": ("C03", "IFMA Neg for &CachedPoint uses Shuffle::BADC instead of BACD", "nightly unstable_avx512 build on an avx512ifma CPU; any negative-digit path", {}),
 "C07b-m1": ("C07", "EphemeralSecret::diffie_hellman multiplies by the clamped scalar reduced mod l", "a peer key outside the prime-order subgroup (twist, small order, their aliases)", {}),
 "C07b-m2": ("C07", "mul_bits_be: the final conditional swap moved under cfg(feature = \"zeroize\")", "a build of curve25519-dalek without the zeroize feature and an odd scalar / bit string", {"C07": "MISSED at first (no build without zeroize; then a .nz build that still had it through ed25519-dalek's alloc feature); caught by the s64+t.nz build (mont.mul)"}),
 "C08b-m1": ("C08", "raw_sign_prehashed leaves the context out of the nonce hash (challenge hash unchanged; nonce reuse across contexts)", "digest feature, non-empty context, comparison with RFC 8032", {}),
 "C08b-m2": ("C08", "hazmat raw_sign_prehashed no longer refuses contexts longer than 255 bytes (check moved to SigningKey)", "hazmat + digest features, the ExpandedSecretKey entry point, a context of 256 or more bytes", {}),
 "C09b-m1": ("C09", "strict check_scalar fast path tests 3 top bits instead of 4: S in [l, 2^253) accepted", "an adversarial non-canonical S below 2^253", {}),
 "C09b-m2": ("C09", "legacy check_scalar tests the top bits after from_bits has cleared bit 255", "legacy_compatibility feature, S with bit 255 set", {}),
 "C11b-m1": ("C11", "AVX2 square_and_negate_D negates lane D with 2^36 p instead of 2^37 p", "AVX2; lane D with all limbs near the documented bound b < 1.5 (no public operation feeds more than b < 1.01)", {"C01": "MISSED at first (C01 did not start the AVX2 kernels at their pre-bounds); caught after C11's raw-lane family was added to C01"}),
 "C11b-m2": ("C11", "u32 FieldElement2625::negate subtracts from 2p instead of 16p", "32-bit serial build; an unreduced sum (b about 1) negated, e.g. inside double_and_compress_batch on the 2-torsion point", {}),
 "C14b-m1": ("C14", "vector Straus collects the radix-16 digits with Vec::push inside Zeroizing (regrowth frees unwiped buffers)", "vector backend, n >= 5 scalars", {}),
 "C14b-m2": ("C14", "EdwardsPoint::zeroize forgets the T coordinate", "inspection of the wiped point's memory (==, compress() do not read T)", {"C14": "MISSED at first (the zeroized value was judged through compress()); caught after mem.zeroize compares the object's storage"}),
 "C15b-m1": ("C15", "MontgomeryPoint::to_edwards returns None when the decompressed x has the wrong sign (u = 0, sign = 1): Elligator's expect() panics", "digest feature; a hash prefix encoding r = 0 with bit 255 set; also to_edwards(1) on u = 0", {}),
 "C15b-m2": ("C15", "CompressedRistretto::from_slice indexes bytes[..32]: short slices panic, long ones are truncated", "a slice whose length is not 32", {}),
 "C16b-m1": ("C16", "Edwards serde visitors zero-pad short sequences", "serde feature, a self-describing format (JSON), fewer than 32 elements", {}),
 "C16b-m2": ("C16", "StaticSecret clamps on construction and deserialises through it", "serde + static_secrets features, comparison with the raw bytes", {}),
 "C11-own1": ("C11", "IFMA negate_lazy back to 16p (reverts the repair f2e2f15)", "nightly unstable_avx512 build on an avx512ifma CPU; product operands with all limbs next to 2^51 (tools/ifma_extreme.json)", {}),
 "C05b-m1": ("C05", "vector vartime double-base starts the NAF scan at index 252", "AVX2 selected, legacy_compatibility, an unreduced scalar in [2^252, 2^253) (a malleated signature R, s+l)", {}),
 "C05b-m2": ("C05", "serial precomputed Straus loses assert_eq!(dp, dynamic_nafs.len()): surplus dynamic scalars are ignored (the vector copy still panics)", "serial implementation selected; a call with more dynamic scalars than dynamic points (documented as an error)", {"C05": "MISSED by construction at first (no misuse calls in the request stream); caught after calls with inconsistent iterator lengths were added (outcome open, equal in every configuration)"}),
 "C10b-m1": ("C10", "LookupTable::select loads the entry by a secret index (still branch-free)", "only the data-address sequence differs", {}),
 "C10b-m2": ("C10", "sqrt_ratio_i returns early when v = 0", "a boundary secret: a point in the identity coset for compress, r_0 = sqrt(i*d) for the one-way map", {"C10": "MISSED at first: memcheck reported the branch (candidate) but no tested secret took it; caught after the algebraic boundary secrets were added (and an unreproduced taint report is now reported as well)"}),
 "C12b-m1": ("C12", "one limb of u64 EIGHT_TORSION[5].T changed (T != XY/Z)", "an operation that reads T of that entry", {}),
 "C12b-m2": ("C12", "one limb of u32 AFFINE_ODD_MULTIPLES_OF_BASEPOINT[63].y_minus_x changed", "32-bit build; a width-8 NAF digit +-127 of the basepoint scalar", {}),
 "C13b-m1": ("C13", "every batch coefficient is the same value (vec![e; n] evaluates e once)", "batch feature; two corrupted entries whose errors cancel", {"C13": "caught by the families added on reading this change (cancelling +d / -d pairs; coefficients pairwise distinct)"}),
 "C13b-m2": ("C13", "both Pippenger copies drop terms whose point is None instead of returning None", "a batch of at least 95 entries with an undecodable R and S = H(R,A,M) * a", {"C13": "caught by the crafted undecodable-R family added on reading this change; C04's optional_multiscalar_mul with a None at n = 190 sees it too"}),
 "C17b-m1": ("C17", "CofactorGroup::is_torsion_free for EdwardsPoint tests X = 0 and T = 0 (the 2-torsion point passes)", "group feature; a point with a 2-torsion component", {}),
 "C17b-m2": ("C17", "PrimeField::from_repr_vartime reduces before its canonicity check", "group feature; a non-canonical encoding with the top bit clear (l, l+1 ...)", {}),
 "C01c-m1": ("C01", "u32 as_bytes: one shift of the q carry chain is 25 instead of 26", "32-bit build; a value within 2^127 of p (-1, -2 ...): as_bytes returns h + 19", {}),
 "C01c-m2": ("C01", "fiat_u64 Add drops the carry pass (a loose element relabelled tight)", "fiat build; an operand held at or above p, or two additions in a row before a multiplication", {}),
 "C02c-m1": ("C02", "Scalar::is_canonical rewritten as a borrow chain that tests s <= l", "the single input s = l", {}),
 "C02c-m2": ("C02", "From<u128> for Scalar drops the top byte", "x >= 2^120", {}),
 "C03c-m1": ("C03", "EdwardsPoint::conditional_select takes T from (a.T, b.Z)", "choice = 1 and a later operation that reads T", {}),
 "C03c-m2": ("C03", "Neg for &ProjectiveNielsPoint forgets to negate T2d", "serial scalar multiplication with a negative digit", {}),
 "C04c-m1": ("C04", "LookupTableRadix64 built one entry short (ConversionRange 0..30)", "radix-64 basepoint table and a recoding with the digit -32", {}),
 "C04c-m2": ("C04", "vector Pippenger drops None points instead of returning None", "vector backend, at least 190 terms, a None input", {}),
 "C06c-m1": ("C06", "group::Group::is_identity for RistrettoPoint compares the Edwards representative (same site as C06-m2, found independently)", "group feature; an identity element with a 4-torsion component", {"C06": "not applicable (driver built without the group feature); C17 is the check for the trait implementations"}),
 "C06c-m2": ("C06", "two bytes of RISTRETTO_BASEPOINT_COMPRESSED transposed (still a valid encoding of another element)", "a code path that uses the compressed constant", {}),
 "C09c-m1": ("C09", "verify_prehashed_strict rejects only R = identity and weak keys (same idea as C09-m2, found independently)", "digest feature, prehashed strict entry point, small-order non-identity R with a mixed-order key", {}),
 "C09c-m2": ("C09", "VerifyingKey::try_from(&[u8]) stores the canonical re-encoding instead of the supplied bytes", "a slice-based constructor and a non-canonical but decodable key encoding", {"C09": "caught by the comparison of every constructor's stored bytes added on reading this change (before: only is_ok of the two constructors was compared)"}),
 "C07c-m1": ("C07", "Hash for MontgomeryPoint hashes the raw bytes (top bit cleared) instead of the value mod p", "one of the 19 encodings in [p, 2^255) used as a hash key", {}),
 "C07c-m2": ("C07", "MontgomeryPoint::mul_clamped returns its input when it is the identity (mod p) - the caller's encoding, not zeros", "the non-canonical encodings of u = 0 (2^255, p, p + 2^255)", {}),
 "C08c-m1": ("C08", "raw_sign_prehashed leaves the context out of the nonce hash (same idea as C08b-m1, found independently)", "digest feature, non-empty context, comparison with RFC 8032", {}),
 "C08c-m2": ("C08", "from_keypair_bytes swallows the decode error of the public half (same idea as C08-m2, found independently)", "a public half that is not a curve point", {}),
 "C11c-m1": ("C11", "projective Niels form caches T*d; the addition formulas double the product lazily (two cooperating sites)", "32-bit backend: cZ is a sum of four reduced values on the tight side (b < 1.75) of the next multiplication", {}),
 "C11c-m2": ("C11", "double_and_compress_batch moves the factor two from e onto g = YY + XX", "32-bit backend; a representation with a large even limb in X^2 + Y^2 (about 1 in 5)", {}),
 "C14c-m1": ("C14", "Scalar::batch_invert builds its scratch vector with push (same idea as C14-m1, found independently)", "batch size n >= 5", {}),
 "C14c-m2": ("C14", "EdwardsPoint::zeroize wipes X twice and never T (same effect as C14b-m2)", "inspection of the wiped point's storage", {}),
 "C15c-m1": ("C15", "verify_batch length check: the two || became &&", "batch feature; lengths of which exactly two agree (index / assert panics, or a silent Ok)", {}),
 "C15c-m2": ("C15", "ExpandedSecretKey::from_slice checks len < 64 and then copy_from_slice", "hazmat feature; a slice longer than 64 bytes", {}),
 "C16c-m1": ("C16", "VerifyingKey visit_bytes truncates over-long byte strings to 32 bytes", "serde feature, a byte-string format (bincode), a payload longer than 32 bytes", {}),
 "C16c-m2": ("C16", "Scalar visit_seq reduces before its canonicity check", "serde feature, a payload of value l or more", {}),
 "C10c-m1": ("C10", "Scalar29::from_bytes_wide returns early when the high limbs are zero", "32-bit backend; a secret wide input below 2^261 (a 32-byte secret zero-extended) against a full-width one", {}),
 "C10c-m2": ("C10", "FieldElement::batch_invert multiplies under `if !input.is_zero()` instead of a conditional assignment", "the Ristretto batch encoder on a secret point that is the identity (secret scalar 0)", {"C10": "the target (batch encoder on secret points) was added on reading this change; the boundary secret 0 makes the traces diverge"}),
 "C12c-m1": ("C12", "two digits transposed in one limb of the IFMA BASEPOINT_ODD_LOOKUP_TABLE entry 61 (123 B)", "nightly unstable_avx512 build on an avx512ifma CPU; a width-8 NAF digit +-123", {}),
 "C12c-m2": ("C12", "u32 MONTGOMERY_A_NEG is 2^255 - A instead of p - A", "32-bit build, digest feature, the Elligator2 map", {}),
 "C13c-m1": ("C13", "verify_batch parses S itself: rejects only set high bits, then reduces (accepts S + l)", "batch feature, default (non-legacy) build, the S + l alias of a valid S", {}),
 "C13c-m2": ("C13", "verify_batch treats an undecodable R as the identity (vartime_multiscalar_mul with unwrap_or_default)", "an undecodable R with S = H(R,A,M) * a, any batch size", {}),
 "C05c-m1": ("C05", "u32 as_bytes: q = (h[0] + 18) >> 26 - zero held as p is serialised as p", "32-bit build; a zero coordinate produced by a subtraction (identity, P - P, torsion points)", {}),
 "C05c-m2": ("C05", "serial vartime Straus drops None points (flat_map) instead of returning None", "serial implementation, fewer than 190 points, a None input", {}),
 "C17c-m1": ("C17", "ROOT_OF_UNITY and ROOT_OF_UNITY_INV swapped in PrimeField for Scalar", "group feature; a check that pins down WHICH primitive 4th root is advertised (g^t with t = (l-1) >> S)", {}),
 "C17c-m2": ("C17", "SubgroupPoint::from_bytes_unchecked skips into_subgroup", "group feature; an encoding with an 8-torsion component through the unchecked entry point", {"C17": "MISSED at first: the specification only demanded decoding of the unchecked entry point (what the group trait promises); tightened to the property's wording - the wrapper admits exactly the torsion-free points"}),
 "C10-own1": ("C10", "LookupTable::select reads the entry by direct index (own seeded change from the design's appendix, not from a sub-agent)", "any secret digit", {"C10": "caught (lock-step traces of ed.mul_base diverge)"}),
}
# measured results: seeded/RESULTS.log (appended by tools/run_seeded.sh); the latest line per (change, check, tier) counts
EXTRA = {}
RL = os.path.join(S, "RESULTS.log")
if os.path.exists(RL):
    latest = {}
    for line in open(RL):
        m = re.match(r"^(\S+) (\S+) (\S+) (C\d+) tier=(\w+) rc=(\d+) (\d+) violations; ?(.*)$", line.strip())
        if m:
            ts, commit, sid, chk, tier, rc, nv, first = m.groups()
            latest[(sid, chk, tier)] = (rc, first, commit)
    for (sid, chk, tier), (rc, first, commit) in sorted(latest.items()):
        txt = {"0": "not caught", "1": "caught", "2": "tool error"}.get(rc, "rc=" + rc) + " in the %s tier" % tier + (" (%s)" % first if first and rc == "1" else "") + " [machinery %s]" % commit
        d = EXTRA.setdefault(sid, {})
        if chk in d and d[chk].startswith("caught in the quick") and tier == "thorough":
            continue
        d[chk] = (d[chk] + "; " if chk in d else "") + txt
rows = []
for sid, (prop, what, needs, res) in sorted(M.items()):
    d = os.path.join(S, sid)
    if not os.path.isdir(d):
        continue
    res = dict(res)
    for k, v in EXTRA.get(sid, {}).items():
        res[k] = (res[k] + " - measured: " + v) if k in res else v
    conf = ""
    cl = os.path.join(d, "confirm.log")
    if os.path.exists(cl):
        t = open(cl).read()
        conf = "confirmed in a scratch worktree: " + "; ".join(x.strip() for x in re.findall(r"(Summary.*|test result: .*|FAIL: .*|PASS: .*)", t))[:600]
    elif sid.endswith("own1"):
        conf = "own change; applies and builds; no separate demonstration (the check's replay is the demonstration)"
    meta = dict(id=sid, breaks_property=prop, change=what, needs_to_manifest=needs, origin="own" if "own" in sid else "independent sub-agent working only from the property text in a scratch worktree",
                confirmation=conf, ran="tools/confirm_mutant.sh (baseline suite with the patch; demonstration with and without it); tools/run_seeded.sh <id> <property> (the check against a scratch copy of /repo with the patch applied)",
                detection=res)
    json.dump(meta, open(os.path.join(d, "meta.json"), "w"), indent=1)
    esc = lambda x: x.replace("|", "\\|")
    rows.append("| %s | %s | %s | %s | %s |" % (sid, prop, esc(what), esc(needs), esc("; ".join("%s: %s" % kv for kv in sorted(res.items())) or "pending")))
print("| id | property | change | needs | checks |\n|----|----------|--------|-------|--------|")
print("\n".join(rows))
