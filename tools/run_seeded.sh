#!/bin/bash
# run_seeded.sh <seeded-id> <property> [tier] : apply a seeded change to /repo, run the check, undo it.
S=/verif/seeded/$1; PID=$2; TIER=${3:-quick}
cd /repo && git diff --quiet || { echo "/repo has uncommitted changes"; exit 2; }
git -C /repo apply "$S/patch.diff" || exit 2
cd /verif && ./vcheck $PID --tier $TIER > /tmp/seeded_$1_$PID.log 2>&1; rc=$?
git -C /repo checkout -- . 
echo "$1 $PID tier=$TIER rc=$rc $(grep -c '^VIOLATION' /tmp/seeded_$1_$PID.log) violations; $(grep -m1 -A1 '^VIOLATION' /tmp/seeded_$1_$PID.log | tail -1)"
exit $rc
