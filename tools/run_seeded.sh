#!/bin/bash
# run_seeded.sh <seeded-id> <property> [tier] : try a seeded change against a check, in a scratch COPY of /repo and the
# harness under /tmp/seedrun/<id> (never touches /repo).  Prints one summary line; full log in /tmp/seedrun/<id>/<property>.log
S=/verif/seeded/$1; PID=$2; TIER=${3:-quick}
ALT=/tmp/seedrun/$1
mkdir -p $ALT/harness $ALT/evidence $ALT/replays $ALT/work
rsync -a --delete --exclude target --exclude .git /repo/ $ALT/repo/
rsync -a --delete --exclude 'target*' /verif/harness/ $ALT/harness/
sed -i "s#/repo/#$ALT/repo/#g" $ALT/harness/Cargo.toml
( cd $ALT/repo && patch -p1 -s < "$S/patch.diff" ) || { echo "$1 $PID PATCH FAILED"; exit 2; }
cd /verif && VERIF_ALT=$ALT ./vcheck $PID --tier $TIER > $ALT/$PID.log 2>&1; rc=$?
echo "$(date -u +%FT%TZ) $(git -C /verif rev-parse --short HEAD) $1 $PID tier=$TIER rc=$rc $(grep -c '^VIOLATION' $ALT/$PID.log) violations; $(grep -m1 -A1 '^VIOLATION' $ALT/$PID.log | tail -1 | sed 's/^ *//')" >> /verif/seeded/RESULTS.log
echo "$1 $PID tier=$TIER rc=$rc $(grep -c '^VIOLATION' $ALT/$PID.log) violations; $(grep -m1 -A1 '^VIOLATION' $ALT/$PID.log | tail -1) $(grep -m1 'TOOL-ERROR' $ALT/$PID.log | cut -c1-200)"
exit $rc
