#!/bin/bash
# confirm_mutant_runsh.sh <seeded-dir> <n> : like confirm_mutant.sh for demonstrations driven by demo/run.sh
# (the script expects to live in <worktree>/MUTANT<n>/demo/run.sh)
set -u
SD=$(readlink -f "$1"); N=$2
NAME=$(basename "$SD"); WT=/tmp/confirm/$NAME; LOG=$SD/confirm.log
mkdir -p /tmp/confirm; rm -rf "$WT"; git -C /repo worktree prune
git -C /repo worktree add -q --detach "$WT" HEAD || exit 2
export CARGO_TARGET_DIR=$WT/target CARGO_NET_OFFLINE=true
{
echo "== confirm $NAME at $(git -C /repo rev-parse --short HEAD)"
cd "$WT"; mkdir -p MUTANT$N; cp -r "$SD/demo" MUTANT$N/
git apply "$SD/patch.diff" || { echo "PATCH DOES NOT APPLY"; exit 2; }
echo "-- baseline suite with patch"
cargo nextest run --workspace --no-fail-fast --tool-config-file pb:/w/lib/nextest.toml --profile pb --test-threads 8 --offline 2>&1 | grep -E "Summary|FAIL|error" | head -20
echo "-- demo WITH patch (expect non-zero exit)"
sh MUTANT$N/demo/run.sh 2>&1 | grep -E "exit status|test result|Conditional|panicked" | sort | uniq -c | head -8
git apply -R "$SD/patch.diff"
echo "-- demo WITHOUT patch (expect exit status 0)"
sh MUTANT$N/demo/run.sh 2>&1 | grep -E "exit status|test result|Conditional|panicked" | sort | uniq -c | head -8
} > "$LOG" 2>&1
cd /; git -C /repo worktree remove --force "$WT"; git -C /repo worktree prune
tail -8 "$LOG"
