------------------------------ MODULE Hash ------------------------------
(***************************************************************************)
(* SHA-512 as an uninterpreted operator on byte sequences.  The meaning is *)
(* FIPS 180-4; TLC evaluates it through the override Hash.class, which     *)
(* calls java.security.MessageDigest.  SHA-512 itself is trusted (DESIGN   *)
(* section 10); everything around it is specified.                         *)
(***************************************************************************)
EXTENDS Naturals, Sequences

SHA512(m) == CHOOSE h \in Seq(0..255) : Len(h) = 64     \* overridden

=============================================================================
