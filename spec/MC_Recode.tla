---------------------------- MODULE MC_Recode ----------------------------
(* All scalars of NB bytes: reconstruction identities, digit ranges, carries. *)
EXTENDS Recode, TLC
CONSTANT NB
VARIABLE s
Init == s \in [1..NB -> 0..255]
Next == UNCHANGED s
v == Val(s)
TopClear == s[NB] < 128
InRange(x, lo, hi) == lo <= x /\ x <= hi

R16OK ==
  LET d == Radix16(s) n == 2 * NB IN
  /\ Len(d) = n
  /\ DigitVal(d, 1, 16) = v                               \* holds for every input
  /\ \A i \in 1..(n - 1) : InRange(d[i], -8, 7)
  /\ (TopClear => InRange(d[n], 0, 8))                    \* the documented precondition suffices
  /\ (d[n] > 8 => ~TopClear)                              \* ... and is what the bound depends on
R2wOK(w) ==
  LET r == Radix2wRaw(s, w)  d == Radix2w(s, w)  n == Len(r[1]) IN
  /\ DigitVal(r[1], 1, 2^w) + r[2] * (2^w)^n = v
  /\ \A i \in 1..n : InRange(r[1][i], -(2^(w-1)), 2^(w-1) - 1)
  /\ Len(d) = 2 * NB
  /\ DigitVal(d, 1, 2^w) = v
  /\ Radix2wSizeHintN(8 * NB, w) <= 2 * NB
  /\ \A i \in 1..Len(d) : i > Radix2wSizeHintN(8 * NB, w) => d[i] = 0
  \* digits fit the i8 the code stores them in, given invariant #1
  /\ (TopClear => \A i \in 1..Len(d) : InRange(d[i], -128, 127))
  /\ (TopClear /\ w = 8 => r[2] \in {0, 1})
NafOK(w) ==
  LET r == NAFRaw(s, w)  d == r[1] IN
  /\ Len(d) = 8 * NB
  /\ (TopClear => r[2] = 0 /\ DigitVal(d, 1, 2) = v)       \* no lost carry under invariant #1
  /\ \A i \in 1..Len(d) : d[i] # 0 =>
        /\ d[i] % 2 = 1 /\ InRange(d[i], -(2^(w-1)) + 1, 2^(w-1) - 1)
        /\ \A j \in (i+1)..(i+w-1) : j <= Len(d) => d[j] = 0
Inv == R16OK /\ R2wOK(5) /\ R2wOK(6) /\ R2wOK(7) /\ R2wOK(8) /\ NafOK(5) /\ NafOK(8) /\ Radix2w(s, 4) = Radix16(s)
\* kept counterexample: without the precondition the last radix-16 digit exceeds 8
NoPrecondition == Radix16(s)[2 * NB] <= 8
=============================================================================
