INIT Init
NEXT Next
INVARIANT MulBasis
INVARIANT SquareBasis
INVARIANT MulSample
CHECK_DEADLOCK FALSE
