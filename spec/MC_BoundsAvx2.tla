---- MODULE MC_BoundsAvx2 ----
EXTENDS BoundsAvx2
====
