---- MODULE MC_Memory ----
EXTENDS Memory
Spec == Init /\ [][Next]_vars
SpecNoWipe == Init /\ [][NextNoWipe]_vars
====
