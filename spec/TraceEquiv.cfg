INIT Init
NEXT Next
INVARIANT Report
POSTCONDITION Complete
CHECK_DEADLOCK FALSE
