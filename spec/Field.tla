------------------------------ MODULE Field ------------------------------
(***************************************************************************)
(* GF(P): layer D (definitions) and layer A (the algorithms of field.rs    *)
(* that have case analysis: sqrt_ratio_i, the exponent chains are in       *)
(* ExpChain).  A field element is its canonical LEN-byte encoding.         *)
(***************************************************************************)
EXTENDS Curve

F0 == Zero(LEN)
F1 == One(LEN)
FN(n) == BMod(BN(n, LEN + 4), P)          \* small native constant -> field

IsCanonical(b) == Len(b) = LEN /\ BLt(b, P)

\* decoding: bit 8*LEN-1 ignored, value reduced mod P
FromBytes(b) == BMod(ClearTop(b), P)
\* encoding: elements are canonical already
FToBytes(a) == a

FAdd(a, b) == AddMod(a, b, P)
FSub(a, b) == SubMod(a, b, P)
FNeg(a)    == NegMod(a, P)
FMul(a, b) == MulMod(a, b, P)
FSq(a)     == MulMod(a, a, P)
FSq2(a)    == FAdd(FSq(a), FSq(a))
FPow2k(a, k) == FoldLeft(LAMBDA x, j : FSq(x), a, [j \in 1..k |-> j])
FInv(a)    == InvMod(a, P)                 \* 0 |-> 0
FPow(a, e) == PowMod(a, e, P)

FIsNeg(a)  == a[1] % 2 = 1                  \* "negative" = odd canonical encoding
FIsZero(a) == BIsZero(a)
FAbs(a)    == IF FIsNeg(a) THEN FNeg(a) ELSE a
FSelect(a, b, c) == IF c THEN b ELSE a      \* conditional_select(a,b,choice)
FCondNeg(a, c)   == IF c THEN FNeg(a) ELSE a

BatchInvert(s) == [i \in 1..Len(s) |-> FInv(s[i])]

\* value of a limb vector: limbs[i] * 2^shift[i], limbs as byte strings
LimbSum(limbs, shifts) ==
  FoldLeft(LAMBDA acc, i : BAdd(acc, BShl(limbs[i], shifts[i], LEN + 12), LEN + 12),
           Zero(LEN + 12), [i \in 1..Len(limbs) |-> i])
FromLimbs(limbs, shifts) == BMod(LimbSum(limbs, shifts), P)

\* ---- constants defined by their equations ---------------------------------
PM1     == BSub(P, One(LEN), LEN)
FMinusOne == FNeg(F1)
\* the derived constants of Curve.tla, by definition
ASSUME EXP_P58 = BDiv(BSub(P, BN(5, LEN), LEN), BN(8, LEN), LEN)      \* (P-5)/8
ASSUME EXP_QR  = BDiv(PM1, BN(2, LEN), LEN)                           \* (P-1)/2
ASSUME EXP_P38 = BDiv(BAdd(P, BN(3, LEN), LEN), BN(8, LEN), LEN)      \* (P+3)/8
\* sqrt(-1): 2^((P-1)/4), normalised to the non-negative (even) root
ASSUME SQRT_M1 = FAbs(FPow(FN(2), BDiv(PM1, BN(4, LEN), LEN)))
ASSUME D2 = FAdd(D, D)

IsSquare(a) == FIsZero(a) \/ FPow(a, EXP_QR) = F1

(***************************************************************************)
(* Square root of a ratio.                                                 *)
(*   Declarative contract (field.rs doc of sqrt_ratio_i):                  *)
(*    (TRUE,  +sqrt(u/v))    if v # 0 and u/v is square                    *)
(*    (TRUE,  0)             if u = 0                                      *)
(*    (FALSE, 0)             if v = 0 and u # 0                            *)
(*    (FALSE, +sqrt(i*u/v))  if u/v is non-square (so i*u/v is square)     *)
(*   "+" is the non-negative root.                                         *)
(***************************************************************************)
FieldSet == {ToBytes(n, LEN) : n \in 0..(Val(P) - 1)}            \* toy sizes only
NonNegRootDecl(a) == CHOOSE r \in FieldSet : FSq(r) = a /\ ~FIsNeg(r)
SqrtRatioDecl(u, v) ==
  IF FIsZero(u) THEN <<TRUE, F0>>
  ELSE IF FIsZero(v) THEN <<FALSE, F0>>
  ELSE LET q == FMul(u, FInv(v)) IN
       IF IsSquare(q) THEN <<TRUE, NonNegRootDecl(q)>>
       ELSE <<FALSE, NonNegRootDecl(FMul(SQRT_M1, q))>>

\* The same contract by the textbook route for P = 5 (mod 8): candidate
\* q^((P+3)/8), fixed up by sqrt(-1).  Used at full size, where CHOOSE over
\* the field is not available; equal to the declarative form on every toy field.
RootOrZero(a) ==                 \* some root of a if a is a square, else F0
  LET c == FPow(a, EXP_P38) IN
  IF FSq(c) = a THEN c
  ELSE IF FSq(FMul(c, SQRT_M1)) = a THEN FMul(c, SQRT_M1) ELSE F0
SqrtRatio(u, v) ==
  IF FIsZero(u) THEN <<TRUE, F0>>
  ELSE IF FIsZero(v) THEN <<FALSE, F0>>
  ELSE LET q == FMul(u, FInv(v)) IN
       IF IsSquare(q) THEN <<TRUE, FAbs(RootOrZero(q))>>
       ELSE <<FALSE, FAbs(RootOrZero(FMul(SQRT_M1, q)))>>

\* Layer A: the algorithm of field.rs sqrt_ratio_i.
SqrtRatioAlg(u, v) ==
  LET v3 == FMul(FSq(v), v)
      v7 == FMul(FSq(v3), v)
      r0 == FMul(FMul(u, v3), FPow(FMul(u, v7), EXP_P58))
      check == FMul(v, FSq(r0))
      iu == FMul(u, SQRT_M1)
      correct == check = u
      flipped == check = FNeg(u)
      flipped_i == check = FNeg(iu)
      r1 == IF flipped \/ flipped_i THEN FMul(SQRT_M1, r0) ELSE r0
      r2 == FAbs(r1)
  IN <<correct \/ flipped, r2>>

InvSqrt(v) == SqrtRatio(F1, v)

=============================================================================
