CONSTANTS
  BACKEND = "u32"
  MUTANT = "batch_factor_on_g"
INIT Init
NEXT Next
INVARIANT NoViolation
INVARIANT TypeInv
CHECK_DEADLOCK FALSE
