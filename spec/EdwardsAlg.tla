---------------------------- MODULE EdwardsAlg ----------------------------
(***************************************************************************)
(* Layer A: the curve models of backend/serial/curve_models and the        *)
(* formulas that move between them.  An extended point is a record         *)
(* [X, Y, Z, T] with x = X/Z, y = Y/Z, xy = T/Z.                           *)
(***************************************************************************)
EXTENDS Edwards

Ext(X, Y, Z, T) == [X |-> X, Y |-> Y, Z |-> Z, T |-> T]
ExtIdentity == Ext(F0, F1, F1, F0)
FromAffine(p) == Ext(p[1], p[2], F1, FMul(p[1], p[2]))
\* the same point with all coordinates scaled by z (another representative)
Scale(e, z) == Ext(FMul(e.X, z), FMul(e.Y, z), FMul(e.Z, z), FMul(e.T, z))
ToAffine(e) == LET r == FInv(e.Z) IN <<FMul(e.X, r), FMul(e.Y, r)>>
\* representation invariant: Z # 0, on the curve, T consistent
ExtValid(e) == /\ ~FIsZero(e.Z)
               /\ FMul(e.X, e.Y) = FMul(e.Z, e.T)
               /\ OnCurve(ToAffine(e))

\* conversions ------------------------------------------------------------------
ProjNiels(e) == [YpX |-> FAdd(e.Y, e.X), YmX |-> FSub(e.Y, e.X), Z |-> e.Z, T2d |-> FMul(e.T, D2)]
AffNiels(e) == LET r == FInv(e.Z)  x == FMul(e.X, r)  y == FMul(e.Y, r)
               IN [ypx |-> FAdd(y, x), ymx |-> FSub(y, x), xy2d |-> FMul(FMul(x, y), D2)]
NegProjNiels(n) == [YpX |-> n.YmX, YmX |-> n.YpX, Z |-> n.Z, T2d |-> FNeg(n.T2d)]
NegAffNiels(n) == [ypx |-> n.ymx, ymx |-> n.ypx, xy2d |-> FNeg(n.xy2d)]
CompletedToExt(c) == Ext(FMul(c.X, c.T), FMul(c.Y, c.Z), FMul(c.Z, c.T), FMul(c.X, c.Y))
CompletedToProj(c) == [X |-> FMul(c.X, c.T), Y |-> FMul(c.Y, c.Z), Z |-> FMul(c.Z, c.T)]
ProjToExt(p) == Ext(FMul(p.X, p.Z), FMul(p.Y, p.Z), FSq(p.Z), FMul(p.X, p.Y))

\* formulas -------------------------------------------------------------------------
AddPN(e, n) ==
  LET PP == FMul(FAdd(e.Y, e.X), n.YpX)  MM == FMul(FSub(e.Y, e.X), n.YmX)
      TT2d == FMul(e.T, n.T2d)  ZZ == FMul(e.Z, n.Z)  ZZ2 == FAdd(ZZ, ZZ)
  IN [X |-> FSub(PP, MM), Y |-> FAdd(PP, MM), Z |-> FAdd(ZZ2, TT2d), T |-> FSub(ZZ2, TT2d)]
SubPN(e, n) ==
  LET PM == FMul(FAdd(e.Y, e.X), n.YmX)  MP == FMul(FSub(e.Y, e.X), n.YpX)
      TT2d == FMul(e.T, n.T2d)  ZZ == FMul(e.Z, n.Z)  ZZ2 == FAdd(ZZ, ZZ)
  IN [X |-> FSub(PM, MP), Y |-> FAdd(PM, MP), Z |-> FSub(ZZ2, TT2d), T |-> FAdd(ZZ2, TT2d)]
AddAN(e, n) ==
  LET PP == FMul(FAdd(e.Y, e.X), n.ypx)  MM == FMul(FSub(e.Y, e.X), n.ymx)
      Txy2d == FMul(e.T, n.xy2d)  Z2 == FAdd(e.Z, e.Z)
  IN [X |-> FSub(PP, MM), Y |-> FAdd(PP, MM), Z |-> FAdd(Z2, Txy2d), T |-> FSub(Z2, Txy2d)]
SubAN(e, n) ==
  LET PM == FMul(FAdd(e.Y, e.X), n.ymx)  MP == FMul(FSub(e.Y, e.X), n.ypx)
      Txy2d == FMul(e.T, n.xy2d)  Z2 == FAdd(e.Z, e.Z)
  IN [X |-> FSub(PM, MP), Y |-> FAdd(PM, MP), Z |-> FSub(Z2, Txy2d), T |-> FAdd(Z2, Txy2d)]
DoubleProj(p) ==
  LET XX == FSq(p.X)  YY == FSq(p.Y)  ZZ2 == FSq2(p.Z)
      XpYsq == FSq(FAdd(p.X, p.Y))  YYpXX == FAdd(YY, XX)  YYmXX == FSub(YY, XX)
  IN [X |-> FSub(XpYsq, YYpXX), Y |-> YYpXX, Z |-> YYmXX, T |-> FSub(ZZ2, YYmXX)]

\* the public operations as the code composes them
EAdd(a, b) == CompletedToExt(AddPN(a, ProjNiels(b)))
ESub(a, b) == CompletedToExt(SubPN(a, ProjNiels(b)))
ENeg(a) == Ext(FNeg(a.X), a.Y, a.Z, FNeg(a.T))
EDouble(a) == CompletedToExt(DoubleProj([X |-> a.X, Y |-> a.Y, Z |-> a.Z]))
RECURSIVE EPow2Loop(_, _)
EPow2Loop(p, k) == IF k = 1 THEN CompletedToExt(DoubleProj(p))
                   ELSE EPow2Loop(CompletedToProj(DoubleProj(p)), k - 1)
EMulByPow2(a, k) == EPow2Loop([X |-> a.X, Y |-> a.Y, Z |-> a.Z], k)
ECompress(a) == LET r == FInv(a.Z)  x == FMul(a.X, r)  y == FMul(a.Y, r)
                IN SetTop(y, IF FIsNeg(x) THEN 1 ELSE 0)
EEq(a, b) == FMul(a.X, b.Z) = FMul(b.X, a.Z) /\ FMul(a.Y, b.Z) = FMul(b.Y, a.Z)
\* decompress as the code does it (step_1 / step_2), with the algorithmic square root
EDecompress(bts) ==
  LET Y == FromBytes(bts)  YY == FSq(Y)
      r == SqrtRatioAlg(FSub(YY, F1), FAdd(FMul(YY, D), F1))
      X == FCondNeg(r[2], TopBit(bts) = 1)
  IN <<r[1], Ext(X, Y, F1, FMul(X, Y))>>
=============================================================================
