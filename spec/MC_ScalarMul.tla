--------------------------- MODULE MC_ScalarMul ---------------------------
(***************************************************************************)
(* Toy group, exhaustive: every algorithm of ScalarMulAlg returns the      *)
(* defined multiple for EVERY point of the full group (torsion included)   *)
(* and EVERY scalar below 2^(8 LEN - 1) (reduced or not).                  *)
(***************************************************************************)
EXTENDS ScalarMulAlg, Params, TLC
CONSTANT PAIRALL,    \* TRUE: pair phase from every (p, s); FALSE: only from the scalars of FewScalars
         QUICK       \* TRUE: the every-change configuration (single phase over a scalar alphabet, small pair phase)
VARIABLES p, s, q, t, ph
Pts == CurvePoints
Scalars == {ToBytes(n, LEN) : n \in 0..127}               \* invariant #1: top bit clear
FewScalars == {ToBytes(n, LEN) : n \in {0, 1, 7, 8, 9, 24, 63, 64, 65, 120, 127, Val(L), Val(L) - 1, Val(L) + 1}}
FewPts == {Identity, BasePt, T8Pt, PtAdd(BasePt, T8Pt), PtDouble(T8Pt), SMul(BN(3, 1), BasePt)}
\* phase 0: one point, one scalar; phase 1: a second (point, scalar) from small sets
QScalars == FewScalars \cup {ToBytes(n, LEN) : n \in {2, 3, 15, 16, 17, 31, 32, 33, 56, 72, 88, 96, 119, 126}}
QPairS == {ToBytes(n, LEN) : n \in {0, 1, 8, 65, 120, 127}}
QPairP == {Identity, T8Pt, PtAdd(BasePt, T8Pt)}
Init == p \in Pts /\ s \in (IF QUICK THEN QScalars ELSE Scalars) /\ q = p /\ t = s /\ ph = 0
Next == ph = 0 /\ (PAIRALL \/ s \in FewScalars) /\ ph' = 1
        /\ q' \in (IF QUICK THEN QPairP ELSE FewPts) /\ t' \in (IF QUICK THEN QPairS ELSE FewScalars) /\ UNCHANGED <<p, s>>
NB == 8 * LEN

SingleOK ==
  LET want == SMul(s, p) IN
  /\ VarBase(s, p) = want
  /\ \A w \in 4..8 :
       LET tb == TableCreate(p, w, NumTables(NB, w)) IN
         /\ TableMulBase(tb, s, w) = want
         /\ TableBasepoint(tb) = p
  /\ VarBase(Clamp(s), p) = SMul(Clamp(s), p)
  /\ StrausCT(<<s>>, <<p>>) = want /\ StrausVT(<<s>>, <<p>>) = want
  /\ \A w \in {6, 7, 8} : Pippenger(<<s>>, <<p>>, w) = want
  /\ StrausCT(<<>>, <<>>) = Identity /\ StrausVT(<<>>, <<>>) = Identity
PairOK ==
  LET want == PtAdd(SMul(s, p), SMul(t, q)) IN
  /\ MSM(<<s, t>>, <<p, q>>, 1) = want
  /\ MSMJoint(<<s, t>>, <<p, q>>) = want
  /\ DoubleBase(s, p, t, q, 5) = want /\ DoubleBase(s, p, t, q, 8) = want
  /\ StrausCT(<<s, t>>, <<p, q>>) = want /\ StrausVT(<<s, t>>, <<p, q>>) = want
  /\ \A w \in {6, 7, 8} : Pippenger(<<s, t, s>>, <<p, q, q>>, w) = PtAdd(want, SMul(s, q))
Inv == (ph = 0 => SingleOK) /\ (ph = 1 => PairOK)
=============================================================================
