CONSTANTS
  MUTANT = "none"
INIT Init
NEXT NextDoubleNeg
INVARIANT PreconditionsHold
INVARIANT DoubleBookkeeping
CHECK_DEADLOCK FALSE
