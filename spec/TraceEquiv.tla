----------------------------- MODULE TraceEquiv -----------------------------
(***************************************************************************)
(* C05: the same request stream replayed against one driver per            *)
(* configuration.  The merged trace has, per request, the list of public   *)
(* observations (one per configuration, hook-only fields removed) and the  *)
(* list of panic fields.  The property is that they are all equal.         *)
(***************************************************************************)
EXTENDS Json, IOUtils, TLC, Sequences, Naturals
Rec == ndJsonDeserialize(IOEnv.TRACE)
VARIABLES l, bad
Init == l = 1 /\ bad = <<>>
AllEq(s) == \A i \in 2..Len(s) : s[i] = s[1]
FirstDiff(s) == CHOOSE i \in 2..Len(s) : s[i] # s[1]
Step == /\ l <= Len(Rec)
        /\ LET e == Rec[l]
               ok == AllEq(e.obs) /\ AllEq(e.panic)
           IN bad' = IF ok \/ Len(bad) >= 6 THEN bad
                     ELSE Append(bad, [line |-> l, i |-> e.i, op |-> e.op, cfg |-> e.cfgs[IF AllEq(e.obs) THEN FirstDiff(e.panic) ELSE FirstDiff(e.obs)],
                                       why |-> <<"differs from", e.cfgs[1]>>])
        /\ l' = l + 1
Next == Step
Report == (l = Len(Rec) + 1) => PrintT(<<"VERDICT", ToJson([events |-> Len(Rec), bad |-> bad])>>)
Complete == TLCGet("stats").diameter = Len(Rec) + 1
=============================================================================
