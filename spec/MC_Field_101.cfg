CONSTANTS
  LEN = 1
  P <- P_101
  D <- D_101
  L <- L_101
  BASE <- BASE_101
  T8ENC <- T8_101
INIT Init
NEXT Next
INVARIANT Inv
CHECK_DEADLOCK FALSE
