------------------------------- MODULE Mul29 -------------------------------
(***************************************************************************)
(* Layer A: Scalar29::mul_internal and square_internal (u32 backend,       *)
(* backend/serial/u32/scalar.rs).  mul_internal is a 2-way Karatsuba over  *)
(* the limb groups 0..4 / 5..8 written with wrapping_add / wrapping_sub on *)
(* u64: intermediate words can be "negative" modulo 2^64, the seventeen    *)
(* final words are the true coefficients c_k = sum_{i+j=k} a_i b_j.        *)
(* The transcription below is over the INTEGERS (no wrapping).  Every      *)
(* argument of m(.,.) is a limb or a sum of two limbs, so each z_k is a    *)
(* bilinear form in (a, b); a bilinear form is determined by its values on *)
(* pairs of unit vectors, so checking the 81 pairs (e_i, e_j) PROVES       *)
(* z_k = c_k over the integers for all operands.  Since 0 <= c_k <=        *)
(* 9 (2^29 - 1)^2 < 2^64 and wrapping arithmetic is arithmetic modulo      *)
(* 2^64, the wrapped words of the code equal c_k exactly.  The checked     *)
(* (non-wrapping) additions of the code are sums of at most five products  *)
(* of values below 2^30: below 5 * 2^60 < 2^64.                            *)
(* square_internal is a quadratic form: determined by its values on e_i    *)
(* and e_i + e_j.                                                           *)
(***************************************************************************)
EXTENDS Integers, Sequences

M(x, y) == x * y
\* a, b: functions 0..8 -> Int
MulInternal(a, b) ==
  LET z0 == M(a[0], b[0])
      z1 == M(a[0], b[1]) + M(a[1], b[0])
      z2 == M(a[0], b[2]) + M(a[1], b[1]) + M(a[2], b[0])
      z3 == M(a[0], b[3]) + M(a[1], b[2]) + M(a[2], b[1]) + M(a[3], b[0])
      z4 == M(a[0], b[4]) + M(a[1], b[3]) + M(a[2], b[2]) + M(a[3], b[1]) + M(a[4], b[0])
      z5a == M(a[1], b[4]) + M(a[2], b[3]) + M(a[3], b[2]) + M(a[4], b[1])
      z6a == M(a[2], b[4]) + M(a[3], b[3]) + M(a[4], b[2])
      z7a == M(a[3], b[4]) + M(a[4], b[3])
      z8a == M(a[4], b[4]) - z3                                                   \* c08 - c03
      z10a == z5a - M(a[5], b[5])                                                  \* c05mc10
      z11a == z6a - (M(a[5], b[6]) + M(a[6], b[5]))                                \* c06mc11
      z12a == z7a - (M(a[5], b[7]) + M(a[6], b[6]) + M(a[7], b[5]))                \* c07mc12
      z13 == M(a[5], b[8]) + M(a[6], b[7]) + M(a[7], b[6]) + M(a[8], b[5])
      z14 == M(a[6], b[8]) + M(a[7], b[7]) + M(a[8], b[6])
      z15 == M(a[7], b[8]) + M(a[8], b[7])
      z16 == M(a[8], b[8])
      z5b == z10a - z0
      z6b == z11a - z1
      z7b == z12a - z2
      z8b == z8a - z13
      z9b == z14 + z4
      z10b == z15 + z10a
      z11b == z16 + z11a
      aa == [i \in 0..3 |-> a[i] + a[i + 5]]
      bb == [i \in 0..3 |-> b[i] + b[i + 5]]
      z5 == M(aa[0], bb[0]) + z5b
      z6 == (M(aa[0], bb[1]) + M(aa[1], bb[0])) + z6b
      z7 == (M(aa[0], bb[2]) + M(aa[1], bb[1]) + M(aa[2], bb[0])) + z7b
      z8 == (M(aa[0], bb[3]) + M(aa[1], bb[2]) + M(aa[2], bb[1]) + M(aa[3], bb[0])) + z8b
      z9 == (M(aa[0], b[4]) + M(aa[1], bb[3]) + M(aa[2], bb[2]) + M(aa[3], bb[1]) + M(a[4], bb[0])) - z9b
      z10 == (M(aa[1], b[4]) + M(aa[2], bb[3]) + M(aa[3], bb[2]) + M(a[4], bb[1])) - z10b
      z11 == (M(aa[2], b[4]) + M(aa[3], bb[3]) + M(a[4], bb[2])) - z11b
      z12 == (M(aa[3], b[4]) + M(a[4], bb[3])) - z12a
  IN <<z0, z1, z2, z3, z4, z5, z6, z7, z8, z9, z10, z11, z12, z13, z14, z15, z16>>
SquareInternal(a) ==
  LET d == [i \in 0..7 |-> 2 * a[i]] IN
  << M(a[0], a[0]),
     M(d[0], a[1]),
     M(d[0], a[2]) + M(a[1], a[1]),
     M(d[0], a[3]) + M(d[1], a[2]),
     M(d[0], a[4]) + M(d[1], a[3]) + M(a[2], a[2]),
     M(d[0], a[5]) + M(d[1], a[4]) + M(d[2], a[3]),
     M(d[0], a[6]) + M(d[1], a[5]) + M(d[2], a[4]) + M(a[3], a[3]),
     M(d[0], a[7]) + M(d[1], a[6]) + M(d[2], a[5]) + M(d[3], a[4]),
     M(d[0], a[8]) + M(d[1], a[7]) + M(d[2], a[6]) + M(d[3], a[5]) + M(a[4], a[4]),
     M(d[1], a[8]) + M(d[2], a[7]) + M(d[3], a[6]) + M(d[4], a[5]),
     M(d[2], a[8]) + M(d[3], a[7]) + M(d[4], a[6]) + M(a[5], a[5]),
     M(d[3], a[8]) + M(d[4], a[7]) + M(d[5], a[6]),
     M(d[4], a[8]) + M(d[5], a[7]) + M(a[6], a[6]),
     M(d[5], a[8]) + M(d[6], a[7]),
     M(d[6], a[8]) + M(a[7], a[7]),
     M(d[7], a[8]),
     M(a[8], a[8]) >>

\* the definition: coefficient k of the product of the two limb polynomials
Coef(a, b, k) == LET RECURSIVE S(_)
                     S(i) == IF i > 8 THEN 0 ELSE (IF k - i >= 0 /\ k - i <= 8 THEN a[i] * b[k - i] ELSE 0) + S(i + 1)
                 IN S(0)
Schoolbook(a, b) == [k \in 1..17 |-> Coef(a, b, k - 1)]
E(i) == [n \in 0..8 |-> IF n = i THEN 1 ELSE 0]
Plus(a, b) == [n \in 0..8 |-> a[n] + b[n]]

\* ---- checked exhaustively by TLC: one state per pair -------------------------------------------
VARIABLES i, j
Init == i \in 0..8 /\ j \in 0..8
Next == UNCHANGED <<i, j>>
\* bilinear forms agree on all pairs of unit vectors
MulBasis == MulInternal(E(i), E(j)) = Schoolbook(E(i), E(j))
\* quadratic forms agree on e_i and on e_i + e_j
SquareBasis == /\ SquareInternal(E(i)) = Schoolbook(E(i), E(i))
               /\ SquareInternal(Plus(E(i), E(j))) = Schoolbook(Plus(E(i), E(j)), Plus(E(i), E(j)))
\* redundancy: a few full-rank non-unit operands (small values, so that TLC's integers suffice)
V1 == [n \in 0..8 |-> 3 * n + 1 + i]
V2 == [n \in 0..8 |-> 97 - 7 * n + j * j]
MulSample == MulInternal(V1, V2) = Schoolbook(V1, V2) /\ SquareInternal(V1) = Schoolbook(V1, V1)
\* the size facts used in the argument
\* c_k <= 9 (2^29 - 1)^2 < 2^62 < 2^64: in TLC's 32-bit integers, (2^29 - 1) < 2^29 and 9 < 2^4 give 2^(4 + 29 + 29)
ASSUME 9 < 2^4 /\ 4 + 29 + 29 < 64
=============================================================================
