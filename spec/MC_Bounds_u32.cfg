CONSTANTS
  BACKEND = "u32"
  MUTANT = "none"
INIT Init
NEXT Next
INVARIANT NoViolation
INVARIANT TypeInv
CHECK_DEADLOCK FALSE
