CONSTANTS
  BACKEND = "u32"
  MUTANT = "none"
INIT Init
NEXT Next
INVARIANT NoViolation
CHECK_DEADLOCK FALSE
