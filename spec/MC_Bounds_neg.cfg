CONSTANTS
  BACKEND = "u32"
  MUTANT = "sub_without_reduce"
INIT Init
NEXT Next
INVARIANT NoViolation
CHECK_DEADLOCK FALSE
