----------------------------- MODULE TraceMisc -----------------------------
(***************************************************************************)
(* Trace specification for Montgomery / X25519 (C07), Ristretto (C06) and  *)
(* Ed25519 (C08, C09, C13).  Montgomery and signature events are stateless *)
(* (they carry bytes); Ristretto events use the specification's register   *)
(* file, which holds an affine Edwards representative of each element.     *)
(***************************************************************************)
EXTENDS Montgomery, Ristretto, Ed25519, TraceBase

LEGACY == IF Has(Rec[1], "obs") /\ Has(Rec[1].obs, "ed_legacy") THEN Rec[1].obs.ed_legacy ELSE FALSE

\* ============================ Montgomery / X25519 ==============================
MontOps == {"mont.mul", "mont.mul_rev", "mont.mul_assign", "mont.mul_clamped", "mont.mul_base", "mont.mul_base_clamped",
            "mont.mul_bits_be", "mont.eq", "x.x25519", "x.dh"}
MontJudge(e) ==
  LET o == e.obs IN
  IF ~NoPanic(e) THEN <<FALSE, "panic">>
  ELSE IF e.op \in {"mont.mul", "mont.mul_rev", "mont.mul_assign"} THEN
       LET x == MontMul(o.u, o.s) IN <<o.r = x, x>>
  ELSE IF e.op = "mont.mul_clamped" THEN
       LET x == X25519(e.in[2], o.u) IN <<o.r = x, x>>
  ELSE IF e.op = "mont.mul_base" THEN
       LET x == ToMontgomery(SMul(o.s, BasePt)) IN <<o.r = x, x>>
  ELSE IF e.op = "mont.mul_base_clamped" THEN
       LET x == ToMontgomery(SMul(Clamp(e.in[1]), BasePt)) IN <<o.r = x, x>>
  ELSE IF e.op = "mont.mul_bits_be" THEN
       LET x == MulBitsBE(e.bits, DecodeU(o.u)) IN <<o.r = x, x>>
  ELSE IF e.op = "mont.eq" THEN
       LET x == MontEq(o.a, o.b) IN <<o.ok = x /\ o.ct = x /\ o.hash_eq = x /\ o.id = Zero(LEN), x>>
  ELSE IF e.op = "x.x25519" THEN
       LET x == X25519(e.in[1], e.in[2]) IN <<o.r = x /\ o.base = ToMontgomery(BasePt), x>>
  ELSE IF e.op = "x.dh" THEN
       LET pk == ToMontgomery(SMul(Clamp(e.in[1]), BasePt))
           ss == X25519(e.in[1], e.in[2])
       IN <<o.pk = pk /\ o.ss = ss /\ o.contributory = ~BIsZero(ss) /\ o.theirs = e.in[2], <<pk, ss>>>>
  ELSE <<FALSE, "unknown">>
MontStep ==
  /\ l <= Len(Rec) /\ Rec[l].op \in MontOps
  /\ LET e == Rec[l]  j == MontJudge(e) IN Note(j[1], e, j[2])
  /\ l' = l + 1 /\ UNCHANGED regs

\* mont.to_edwards writes an Edwards register
MontToEdStep ==
  /\ l <= Len(Rec) /\ Rec[l].op = "mont.to_edwards"
  /\ LET e == Rec[l] IN
       IF ~NoPanic(e) THEN Note(FALSE, e, "panic") /\ SetReg(e.out, NoneVal)
       ELSE LET x == ToEdwards(e.obs.u, e.sign) IN
            /\ Note(e.obs.ok = x[1] /\ (x[1] => e.obs.r.c = Compress(x[2])), e, IF x[1] THEN Compress(x[2]) ELSE "none")
            /\ SetReg(e.out, IF x[1] THEN [t |-> "ed", p |-> x[2]] ELSE NoneVal)
  /\ l' = l + 1

\* ================================= Ristretto ========================================
RisCtor == {"rng.ristretto", "ris.table", "ris.decompress", "ris.from_slice", "ris.basepoint", "ris.identity", "ris.default", "ris.from_uniform_bytes",
            "ris.hash_from_bytes", "ris.from_hash"}
RisPt  == {"ris.add", "ris.sub", "ris.add_assign", "ris.sub_assign", "ris.neg", "ris.copy", "ris.sum", "ris.torsion_translate",
           "ris.cond_select", "ris.mul", "ris.mul_rev", "ris.mul_assign", "ris.mul_base", "ris.vartime_double_scalar_mul_basepoint",
           "ris.multiscalar_mul", "ris.vartime_multiscalar_mul", "ris.optional_multiscalar_mul"}
RisObs == {"ris.compress", "ris.eq", "ris.double_and_compress_batch", "ris.basepoint_compressed"}
RP(n) == regs[n].p
RPs(names) == [i \in 1..Len(names) |-> RP(names[i])]
RisExpected(e) ==
  LET o == e.obs IN
  CASE e.op = "ris.decompress" -> LET d == RistDecode(e.in[1]) IN <<d[1], ToAffine(d[2])>>
    [] e.op = "ris.from_slice" -> IF Len(e.in[1]) = LEN THEN LET d == RistDecode(e.in[1]) IN <<d[1], ToAffine(d[2])>> ELSE <<FALSE, Identity>>
    [] e.op = "ris.basepoint" -> <<TRUE, BasePt>>
    [] e.op \in {"ris.identity", "ris.default"} -> <<TRUE, Identity>>
    [] e.op = "ris.from_uniform_bytes" -> <<TRUE, ToAffine(RistFromUniform(e.in[1]))>>
    [] e.op = "rng.ristretto" -> <<TRUE, ToAffine(RistFromUniform(SubSeq(e.in[1], 1, 2 * LEN)))>>      \* 64 bytes drawn from the RNG
    [] e.op = "ris.table" -> <<TRUE, SMul(o.s, RP(e.in[1]))>>
    [] e.op \in {"ris.hash_from_bytes", "ris.from_hash"} -> <<TRUE, ToAffine(RistFromUniform(SHA512(e.in[1])))>>
    [] e.op \in {"ris.add", "ris.add_assign"} -> <<TRUE, PtAdd(RP(e.in[1]), RP(e.in[2]))>>
    [] e.op \in {"ris.sub", "ris.sub_assign"} -> <<TRUE, PtSub(RP(e.in[1]), RP(e.in[2]))>>
    [] e.op = "ris.neg" -> <<TRUE, PtNeg(RP(e.in[1]))>>
    [] e.op = "ris.copy" -> <<TRUE, RP(e.in[1])>>
    [] e.op = "ris.sum" -> <<TRUE, PtSum(RPs(e.in), 1)>>
    [] e.op = "ris.torsion_translate" -> <<TRUE, PtAdd(RP(e.in[1]), Torsion(2 * e.k))>>     \* same element, other representative
    [] e.op = "ris.cond_select" -> <<TRUE, IF e.c THEN RP(e.in[2]) ELSE RP(e.in[1])>>
    [] e.op \in {"ris.mul", "ris.mul_rev", "ris.mul_assign"} -> <<TRUE, SMul(o.s, RP(e.in[1]))>>
    [] e.op = "ris.mul_base" -> <<TRUE, SMul(o.s, BasePt)>>
    [] e.op = "ris.vartime_double_scalar_mul_basepoint" -> <<TRUE, PtAdd(SMul(o.a, RP(e.in[2])), SMul(o.b, BasePt))>>
    [] e.op \in {"ris.multiscalar_mul", "ris.vartime_multiscalar_mul"} -> <<TRUE, MSMJoint(o.ss, RPs(e.points))>>
    [] e.op = "ris.optional_multiscalar_mul" ->
         IF \E i \in 1..Len(e.points) : IsNone(e.points[i]) THEN <<FALSE, Identity>> ELSE <<TRUE, MSMJoint(o.ss, RPs(e.points))>>
RisPointStep(e) ==
  IF ~NoPanic(e) THEN Note(FALSE, e, "panic") /\ SetReg(e.out, NoneVal)
  ELSE LET x == RisExpected(e)  o == e.obs IN
       /\ Note(/\ o.ok = x[1]
               /\ (x[1] => o.r.c = RistEncodeAff(x[2]))
               /\ (e.op = "ris.from_slice" => o.len_ok = (Len(e.in[1]) = LEN))
               /\ (e.op = "ris.table" => o.bp.c = RistEncodeAff(RP(e.in[1]))),
               e, IF x[1] THEN RistEncodeAff(x[2]) ELSE "none")
       /\ SetReg(e.out, IF x[1] THEN [t |-> "ris", p |-> x[2]] ELSE NoneVal)
RisObsJudge(e) ==
  LET o == e.obs IN
  IF ~NoPanic(e) THEN <<FALSE, "panic">>
  ELSE IF e.op = "ris.compress" THEN LET x == RistEncodeAff(RP(e.in[1])) IN <<o.r.c = x, x>>
  ELSE IF e.op = "ris.eq" THEN
       LET x == RistEncodeAff(RP(e.in[1])) = RistEncodeAff(RP(e.in[2])) IN <<o.ok = x /\ o.ct = x /\ o.cc = x, x>>
  ELSE IF e.op = "ris.double_and_compress_batch" THEN
       LET x == [i \in 1..Len(e.in) |-> RistEncodeAff(PtDouble(RP(e.in[i])))] IN <<o.rs = x, x>>
  ELSE IF e.op = "ris.basepoint_compressed" THEN
       LET x == RistEncodeAff(BasePt) IN <<o.r = x /\ o.id = Zero(LEN), x>>
  ELSE <<FALSE, "unknown">>
RisStep ==
  /\ l <= Len(Rec) /\ Rec[l].op \in RisCtor \cup RisPt \cup RisObs
  /\ LET e == Rec[l] IN
       IF e.op \in RisObs THEN LET j == RisObsJudge(e) IN Note(j[1], e, j[2]) /\ UNCHANGED regs
       ELSE RisPointStep(e)
  /\ l' = l + 1

\* ================================== Ed25519 ==========================================
\* C13.  The coefficients of the batch equation are not part of any property; what the property demands is the verdict.  The
\* driver therefore also plays the ADAPTIVE adversary: it reads the coefficients z of a batch (a public function of the
\* batch; exposed by a hook), moves S_0 and S_1 so that sum z_i S_i is unchanged, and submits that batch ("att_sigs").  Its
\* verdict is judged like any other batch: Ok exactly when every entry verifies on its own - which entries 0 and 1 no
\* longer do.
SigOps == {"rng.scalar", "rng.signing_key", "sig.keygen", "sig.from_keypair_bytes", "sig.sk_from_slice", "sig.sign", "sig.sign_expanded", "sig.sign_prehashed",
           "sig.verify", "sig.verify_batch"}
SigJudge(e) ==
  LET o == e.obs IN
  IF ~NoPanic(e) THEN <<FALSE, "panic">>
  ELSE IF e.op = "sig.keygen" THEN
       LET h == SHA512(e.in[1])  pk == PublicFromExpanded(h)  a == ExpandScalar(h)
       IN <<o.pk = pk /\ o.sk = e.in[1] /\ o.kp = e.in[1] \o pk
            \* to_scalar_bytes is documented as the UNclamped first half of the hash (a valid X25519 StaticSecret:
            \* x25519 clamps it); to_scalar is the clamped integer reduced mod l
            /\ o.scalar_bytes = SubSeq(h, 1, LEN) /\ Clamp(o.scalar_bytes) = a /\ o.scalar = ScReduce(a)
            /\ o.mont = ToMontgomery(SMul(a, BasePt)) /\ o.weak = IsSmallOrder(DecompressPt(pk)), pk>>
  ELSE IF e.op = "rng.scalar" THEN LET x == ScReduce(SubSeq(e.in[1], 1, 2 * LEN)) IN <<o.r = x, x>>
  ELSE IF e.op = "rng.signing_key" THEN
       LET sd == SubSeq(e.in[1], 1, LEN)  pk == PublicKey(sd) IN <<o.sk = sd /\ o.pk = pk, pk>>
  ELSE IF e.op = "sig.from_keypair_bytes" THEN
       LET pk == PublicKey(SubSeq(e.in[1], 1, LEN))
           x == (SubSeq(e.in[1], LEN + 1, 2 * LEN) = pk)          \* the public half must be the derived key, byte for byte
       IN <<o.ok = x /\ (x => o.pk = pk), x>>
  ELSE IF e.op = "sig.sk_from_slice" THEN
       <<o.ok = (Len(e.in[1]) = LEN) /\ o.esk_ok = (Len(e.in[1]) = 2 * LEN) /\ o.esk_ok2 = o.esk_ok, Len(e.in[1])>>
  ELSE IF e.op = "sig.sign" THEN
       LET x == Sign(e.in[1], FALSE, <<>>, e.in[2]) IN <<o.sig = x /\ o.pk = PublicKey(e.in[1]), x>>
  ELSE IF e.op = "sig.sign_expanded" THEN
       LET pk == PublicFromExpanded(e.in[1])  x == SignExpanded(e.in[1], pk, FALSE, <<>>, e.in[2]) IN <<o.sig = x /\ o.pk = pk, x>>
  ELSE IF e.op = "sig.sign_prehashed" THEN
       LET ctx == IF Has(e, "noctx") /\ e.noctx THEN <<>> ELSE e.in[3]
           okc == Len(ctx) <= 255
           x == IF okc THEN Sign(e.in[1], TRUE, ctx, e.in[2]) ELSE <<>>
       IN <<o.ok = okc /\ (okc => o.sig = x)
            /\ o.ctx_ok = (Len(e.in[3]) <= 255)
            /\ (Len(e.in[3]) <= 255 => o.sig_ctx = Sign(e.in[1], TRUE, e.in[3], e.in[2])), x>>
  ELSE IF e.op = "sig.verify" THEN
       LET A == e.in[1]  m == e.in[2]  sg == e.in[3]  ctx == e.in[4]
           keyok == Decompress(A)[1]
           sigok == Len(sg) = 2 * LEN
       IN IF ~(keyok /\ sigok) THEN <<o.key_ok = keyok /\ (keyok => o.sig_ok = sigok), <<keyok, sigok>>>>
          ELSE LET v == VerifyAccepts(A, FALSE, <<>>, m, sg, LEGACY)
                   s == StrictAccepts(A, FALSE, <<>>, m, sg, LEGACY)
                   short == Len(ctx) <= 255
                   pv == IF short THEN VerifyAccepts(A, TRUE, ctx, m, sg, LEGACY) ELSE FALSE
                   ps == IF short THEN StrictAccepts(A, TRUE, ctx, m, sg, LEGACY) ELSE FALSE
               IN <</\ o.key_ok /\ o.sig_ok
                    /\ o.verify = v /\ o.verify2 = v /\ o.raw = v /\ o.strict = s
                    /\ o.weak = IsSmallOrder(DecompressPt(A))
                    /\ o.pk_edwards = Compress(DecompressPt(A))
                    \* the key object holds the supplied bytes whichever constructor built it
                    /\ (Has(o, "key_bytes") => (\A k \in 1..Len(o.key_bytes) : o.key_bytes[k] = A) /\ o.slice_key_same)
                    /\ (short => /\ o.ph = pv /\ o.ph_raw = pv /\ o.ph_strict = ps /\ o.ph_ctx = pv
                                 /\ o.ph_none = VerifyAccepts(A, TRUE, <<>>, m, sg, LEGACY))
                    \* a context longer than 255 bytes is malformed input: refused by with_context, and every
                    \* prehashed verifier answers Err (never Ok, never a panic)
                    /\ (~short => o.ctx_refused /\ o.ph_long = "err" /\ o.ph_long_strict = "err" /\ o.ph_long_raw = "err"),
                    <<v, s, pv, ps>>>>
  ELSE IF e.op = "sig.verify_batch" THEN
       LET ents == [i \in 1..Len(e.entries) |-> [A |-> e.entries[i][1], m |-> e.entries[i][2], sig |-> e.entries[i][3]]]
           keysok == \A i \in 1..Len(ents) : Decompress(ents[i].A)[1]
           lensok == ~Has(e, "lens") \/ (e.lens[1] = e.lens[2] /\ e.lens[2] = e.lens[3])
           used == IF Has(e, "lens") /\ lensok THEN SubSeq(ents, 1, e.lens[1]) ELSE ents
       IN IF ~keysok THEN <<~o.key_ok, "bad key">>
          ELSE IF ~lensok THEN <<o.key_ok /\ ~o.ok /\ ~o.again, "length mismatch must be Err">>
          ELSE IF Has(o, "att_sigs") /\ ~(LET att == [i \in 1..Len(used) |-> [A |-> used[i].A, m |-> used[i].m, sig |-> o.att_sigs[i]]]
                                           IN BatchInDomain(att) => o.att_ok = BatchAllValid(att))
               THEN <<FALSE, "the adaptive adversary's batch (S_0, S_1 moved along the coefficients) was accepted although its entries are invalid">>
          ELSE IF BatchMustErr(used) THEN <<o.key_ok /\ ~o.ok /\ ~o.again, "must be Err">>
          ELSE IF BatchInDomain(used) THEN
               LET x == BatchAllValid(used) IN <<o.key_ok /\ o.ok = x /\ o.again = x, x>>
          ELSE <<o.key_ok /\ o.ok = o.again, "outside the precondition: only determinism is required">>
  ELSE <<FALSE, "unknown">>
SigStep ==
  /\ l <= Len(Rec) /\ Rec[l].op \in SigOps
  /\ LET e == Rec[l]  j == SigJudge(e) IN
       /\ Note(j[1], e, j[2]) /\ UNCHANGED regs
  /\ l' = l + 1
=============================================================================
