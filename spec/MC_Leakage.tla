---------------------------- MODULE MC_Leakage ----------------------------
(* Self-composition over all pairs of toy secrets: the constant-time mechanisms emit equal observation sequences; *)
(* each leaky counterpart is rejected (kept counterexamples, configuration MC_Leakage_neg).                      *)
EXTENDS Leakage
VARIABLES s1, s2
Digits == -8..8
Bits4 == [1..4 -> 0..1]
Init == s1 \in Digits \X Bits4 /\ s2 \in Digits \X Bits4
Next == UNCHANGED <<s1, s2>>
Val4(b) == b[1] + 2 * b[2] + 4 * b[3] + 8 * b[4]
NonInterference ==
  /\ SelectCT(s1[1]) = SelectCT(s2[1])
  /\ RecodeCT(s1[2]) = RecodeCT(s2[2])
  /\ LadderCT(s1[2]) = LadderCT(s2[2])
  /\ SubCT(Val4(s1[2]), 7) = SubCT(Val4(s2[2]), 7)
  /\ CondNegCT(s1[2][1] = 1) = CondNegCT(s2[2][1] = 1)
  /\ SqrtRatioCT(Val4(s1[2]), s1[2][1]) = SqrtRatioCT(Val4(s2[2]), s2[2][1])
  /\ BatchInvCT(s1[2]) = BatchInvCT(s2[2])
LeakySelect == SelectLeaky(s1[1]) = SelectLeaky(s2[1])
LeakyNaf == NafObs(s1[2]) = NafObs(s2[2])
LeakyLadder == LadderLeaky(s1[2]) = LadderLeaky(s2[2])
LeakySub == SubLeaky(Val4(s1[2]), 7) = SubLeaky(Val4(s2[2]), 7)
LeakySqrt == SqrtRatioLeaky(Val4(s1[2]), s1[2][1]) = SqrtRatioLeaky(Val4(s2[2]), s2[2][1])
LeakyBatchInv == BatchInvLeaky(s1[2]) = BatchInvLeaky(s2[2])
=============================================================================
