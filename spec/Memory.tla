------------------------------- MODULE Memory -------------------------------
(***************************************************************************)
(* Layer I: heap blocks and the two heap users that hold data derived from *)
(* secret scalars (constant-time Straus multiscalar multiplication, batch  *)
(* scalar inversion).  A block is [size, live, tainted]; `tainted` = its   *)
(* contents depend on a secret.  The user is a small program:              *)
(*   Collect (build the vector element by element) ; Compute ; Wipe ; Free *)
(* The vector either reserves its exact size up front (an exact size hint, *)
(* `vec![x; n]`) or grows by doubling.  Growth frees the old buffer WITH   *)
(* its contents.  Invariant: no freed block is tainted.                    *)
(***************************************************************************)
EXTENDS Naturals, Sequences, FiniteSets

CONSTANTS NMAX,       \* largest number of elements
          GROWTH      \* "exact" | "doubling"

VARIABLES n,          \* number of elements to push (chosen initially)
          pc,         \* "collect" | "compute" | "wipe" | "free" | "done"
          blocks,     \* sequence of [cap, live, tainted]
          cur,        \* index of the vector's current buffer (0 = none)
          len         \* elements pushed so far
vars == <<n, pc, blocks, cur, len>>

Init == /\ n \in 0..NMAX /\ pc = "collect" /\ blocks = <<>> /\ cur = 0 /\ len = 0

NewBlock(cap) == [cap |-> cap, live |-> TRUE, tainted |-> FALSE]
\* the first push (or the reservation) allocates
Reserve == /\ pc = "collect" /\ cur = 0 /\ n > 0
           /\ blocks' = Append(blocks, NewBlock(IF GROWTH = "exact" THEN n ELSE 1))
           /\ cur' = Len(blocks) + 1 /\ UNCHANGED <<n, pc, len>>
\* push one secret-derived element into spare capacity
Push == /\ pc = "collect" /\ cur # 0 /\ len < n /\ len < blocks[cur].cap
        /\ blocks' = [blocks EXCEPT ![cur].tainted = TRUE]
        /\ len' = len + 1 /\ UNCHANGED <<n, pc, cur>>
\* no spare capacity: allocate a bigger buffer, copy, free the old one as it is
Grow == /\ pc = "collect" /\ cur # 0 /\ len < n /\ len = blocks[cur].cap
        /\ blocks' = Append([blocks EXCEPT ![cur].live = FALSE],
                            [cap |-> 2 * blocks[cur].cap, live |-> TRUE, tainted |-> blocks[cur].tainted])
        /\ cur' = Len(blocks) + 1 /\ UNCHANGED <<n, pc, len>>
Collected == /\ pc = "collect" /\ len = n /\ pc' = "compute" /\ UNCHANGED <<n, blocks, cur, len>>
Compute == /\ pc = "compute" /\ pc' = "wipe" /\ UNCHANGED <<n, blocks, cur, len>>
\* Zeroize::zeroize(&mut vec): overwrites the CURRENT buffer only
Wipe == /\ pc = "wipe" /\ pc' = "free"
        /\ blocks' = IF cur = 0 THEN blocks ELSE [blocks EXCEPT ![cur].tainted = FALSE]
        /\ UNCHANGED <<n, cur, len>>
Free == /\ pc = "free" /\ pc' = "done"
        /\ blocks' = IF cur = 0 THEN blocks ELSE [blocks EXCEPT ![cur].live = FALSE]
        /\ UNCHANGED <<n, cur, len>>
Next == Reserve \/ Push \/ Grow \/ Collected \/ Compute \/ Wipe \/ Free

\* C14: after such a call no freed heap block has contents that depend on the secret scalars
NoTaintedFree == \A i \in 1..Len(blocks) : ~blocks[i].live => ~blocks[i].tainted
AllFreedAtEnd == pc = "done" => \A i \in 1..Len(blocks) : ~blocks[i].live
\* a variant of the user that forgets the wipe (the mechanism the property names is necessary)
NextNoWipe == Reserve \/ Push \/ Grow \/ Collected \/ Compute
              \/ (pc = "wipe" /\ pc' = "free" /\ UNCHANGED <<n, blocks, cur, len>>) \/ Free

=============================================================================
