------------------------------ MODULE TraceMem ------------------------------
(* Trace specification for C14: allocator traces, post-drop storage, explicit zeroisation. *)
EXTENDS Montgomery, Ed25519, MemoryReplay, TraceBase

MemOps == {"mem.run", "mem.drop", "mem.zeroize"}
\* does byte string v occur in s, and where
Occurs(v, s) == \E i \in 1..(Len(s) - Len(v) + 1) : SubSeq(s, i, i + Len(v) - 1) = v
Pos(v, s) == CHOOSE i \in 1..(Len(s) - Len(v) + 1) : SubSeq(s, i, i + Len(v) - 1) = v
\* the secret fields of each secret-holding type, from the constructor's inputs
Secrets(e) ==
  \* every form in which an implementation may plausibly keep the secret: the seed, the expanded scalar (clamped bytes and
  \* reduced), the nonce prefix; for X25519 the raw and the clamped bytes
  CASE e.ty \in {"SigningKey", "ExpandedSecretKey"} -> LET h == SHA512(e.in[1]) IN <<e.in[1], ExpandScalar(h), ScReduce(ExpandScalar(h)), ExpandPrefix(h)>>
    [] e.ty \in {"StaticSecret", "EphemeralSecret", "ReusableSecret"} -> <<e.in[1], Clamp(e.in[1])>>
    [] e.ty = "SharedSecret" -> <<X25519(e.in[1], e.in[2])>>
\* in whatever form the object keeps its secret: if a known form of it is in the storage before the drop, it is gone afterwards
ErasedOK(v, before, after) == Occurs(v, before) => ~Occurs(v, after)
ZeroizedValue(ty) ==
  CASE ty \in {"Scalar", "CompressedRistretto", "MontgomeryPoint", "StaticSecret", "RistrettoPoint"} -> Zero(LEN)
    [] ty \in {"EdwardsPoint", "CompressedEdwardsY"} -> Compress(Identity)
MemJudge(e) ==
  LET o == e.obs IN
  IF ~NoPanic(e) THEN <<FALSE, "panic">>
  ELSE IF e.op = "mem.run" THEN
       <</\ o.shape_same                                  \* the allocation pattern itself does not depend on the secret
         /\ ReplayOK(o.events) /\ LiveAtEnd(o.events) = 0,
         IF ~o.shape_same THEN "allocation pattern depends on the secret"
         ELSE [freed_tainted |-> {i \in 1..Len(o.events) : o.events[i].k = "dealloc" /\ o.events[i].tainted}, live_at_end |-> LiveAtEnd(o.events)]>>
  ELSE IF e.op = "mem.drop" THEN
       \* erased = what is left does not depend on the secret (the same object built from other secrets leaves the same bytes),
       \* while the live object's storage did depend on it; no particular internal form of the secret is demanded
       \* (a SigningKey also holds its public key, which legitimately survives and depends on the secret: for it only the known
       \* forms of the secret are tracked, and at least one of them must have been there)
       LET s == Secrets(e) IN
       <</\ \A i \in 1..Len(s) : ~BIsZero(s[i]) => (ErasedOK(s[i], o.before, o.after) /\ ~Occurs(s[i], o.after))
         /\ (e.ty = "SigningKey" => \E i \in 1..Len(s) : Occurs(s[i], o.before))
         /\ (e.ty # "SigningKey" /\ Has(o, "afters") /\ Len(o.afters) > 1 => o.befores_differ /\ \A k \in 2..Len(o.afters) : o.afters[k] = o.afters[1]),
         "secret bytes survive the drop">>
  \* the encoded value is the documented one AND the storage of the wiped object is the same whatever it held before
  \* (an encoder reads only some coordinates: a surviving T coordinate would not show in o.r)
  ELSE IF e.op = "mem.zeroize" THEN <<o.r = ZeroizedValue(e.ty) /\ (Has(o, "raws") => \A k \in 2..Len(o.raws) : o.raws[k] = o.raws[1]), ZeroizedValue(e.ty)>>
  ELSE <<FALSE, "unknown">>
MemStep ==
  /\ l <= Len(Rec) /\ Rec[l].op \in MemOps
  /\ LET e == Rec[l]  j == MemJudge(e) IN Note(j[1], e, j[2])
  /\ l' = l + 1 /\ UNCHANGED regs
=============================================================================
