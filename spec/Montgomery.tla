---------------------------- MODULE Montgomery ----------------------------
(***************************************************************************)
(* The Montgomery form  v^2 = u^3 + A u^2 + u  and X25519.                 *)
(*  Layer D: RFC 7748 section 5 (decoding, clamping, the ladder as printed *)
(*  there) and the birational map to the Edwards form with its exceptional *)
(*  points.  Layer A: dalek's ladder (mul_bits_be with the Costello-Smith   *)
(*  differential_add_and_double), to_edwards, Elligator2.                   *)
(***************************************************************************)
EXTENDS Edwards

ASSUME MONT_A = FMul(FN(2), FMul(FSub(D, F1), FInv(FSub(FNeg(F1), D))))     \* A = 2(a+d)/(a-d), a = -1
ASSUME FMul(APLUS2_OVER_FOUR, FN(4)) = FAdd(MONT_A, FN(2))

TopIdx == FBITS - 1                         \* ladder runs over bits 254 .. 0 (scaled: 8 LEN - 2 .. 0)
DecodeU(b) == FromBytes(b)

\* ---- layer D: RFC 7748 section 5, literally --------------------------------------
A24 == FMul(FSub(MONT_A, FN(2)), FInv(FN(4)))                             \* (A - 2)/4 = 121665
RfcStep(st, kt, x1) ==
  LET sw == (st.swap + kt) % 2
      x2 == IF sw = 1 THEN st.x3 ELSE st.x2   x3 == IF sw = 1 THEN st.x2 ELSE st.x3
      z2 == IF sw = 1 THEN st.z3 ELSE st.z2   z3 == IF sw = 1 THEN st.z2 ELSE st.z3
      A == FAdd(x2, z2)  AA == FSq(A)  B == FSub(x2, z2)  BB == FSq(B)  E == FSub(AA, BB)
      C == FAdd(x3, z3)  DD == FSub(x3, z3)  DA == FMul(DD, A)  CB == FMul(C, B)
  IN [x2 |-> FMul(AA, BB), z2 |-> FMul(E, FAdd(AA, FMul(A24, E))),
      x3 |-> FSq(FAdd(DA, CB)), z3 |-> FMul(x1, FSq(FSub(DA, CB))), swap |-> kt]
RfcLadder(k, u) ==                   \* k: scalar bytes already clamped; u: field element
  LET fin == FoldLeft(LAMBDA st, j : RfcStep(st, BBit(k, TopIdx + 1 - j), u),
                      [x2 |-> F1, z2 |-> F0, x3 |-> u, z3 |-> F1, swap |-> 0], [j \in 1..(TopIdx + 1) |-> j])
      x2 == IF fin.swap = 1 THEN fin.x3 ELSE fin.x2
      z2 == IF fin.swap = 1 THEN fin.z3 ELSE fin.z2
  IN FMul(x2, FPow(z2, BSub(P, BN(2, LEN), LEN)))
X25519(k, ub) == RfcLadder(Clamp(k), DecodeU(ub))      \* the byte-level function; result is canonical bytes

\* ---- the birational map ----------------------------------------------------------------
ToMontgomery(p) == FMul(FAdd(F1, p[2]), FInv(FSub(F1, p[2])))          \* identity |-> 0 (0.invert() = 0)
\* <<ok, point>>: u = -1 is rejected; otherwise y = (u-1)/(u+1) and Edwards decompression with the sign
ToEdwards(ub, sign) ==
  LET u == DecodeU(ub) IN
  IF u = FMinusOne THEN <<FALSE, Identity>>
  ELSE Decompress(SetTop(FMul(FSub(u, F1), FInv(FAdd(u, F1))), sign))
OnMontCurve(u) == IsSquare(FAdd(FAdd(FMul(FSq(u), u), FMul(MONT_A, FSq(u))), u))     \* u^3 + A u^2 + u is a square
MontEq(a, b) == DecodeU(a) = DecodeU(b)

\* ---- layer A: dalek's ladder ------------------------------------------------------------
DiffAddDouble(Pp, Q, aff) ==
  LET t0 == FAdd(Pp.U, Pp.W)  t1 == FSub(Pp.U, Pp.W)  t2 == FAdd(Q.U, Q.W)  t3 == FSub(Q.U, Q.W)
      t4 == FSq(t0)  t5 == FSq(t1)  t6 == FSub(t4, t5)
      t7 == FMul(t0, t3)  t8 == FMul(t1, t2)  t9 == FAdd(t7, t8)  t10 == FSub(t7, t8)
      t11 == FSq(t9)  t12 == FSq(t10)  t13 == FMul(APLUS2_OVER_FOUR, t6)
      t14 == FMul(t4, t5)  t15 == FAdd(t13, t5)  t16 == FMul(t6, t15)  t17 == FMul(aff, t12)
  IN <<[U |-> t14, W |-> t16], [U |-> t11, W |-> t17]>>
\* bits: sequence of 0/1, most significant first; u: field element
MulBitsBE(bits, u) ==
  LET fin == FoldLeft(LAMBDA st, j :
                        LET c == (st.prev + bits[j]) % 2
                            x0 == IF c = 1 THEN st.x1 ELSE st.x0
                            x1 == IF c = 1 THEN st.x0 ELSE st.x1
                            r == DiffAddDouble(x0, x1, u)
                        IN [x0 |-> r[1], x1 |-> r[2], prev |-> bits[j]],
                      [x0 |-> [U |-> F1, W |-> F0], x1 |-> [U |-> u, W |-> F1], prev |-> 0],
                      [j \in 1..Len(bits) |-> j])
      x0 == IF fin.prev = 1 THEN fin.x1 ELSE fin.x0
  IN FMul(x0.U, FInv(x0.W))                                           \* as_affine: 0 when W = 0
ScalarBitsBE(s) == [j \in 1..(TopIdx + 1) |-> BBit(s, TopIdx + 1 - j)]     \* bits 254 .. 0 (bit 255 skipped)
MontMul(ub, s) == MulBitsBE(ScalarBitsBE(s), DecodeU(ub))                 \* MontgomeryPoint * Scalar

\* ---- Elligator2 (elligator_encode), used by the non-spec map to the curve --------------------
ElligatorEncode(r0) ==
  LET d1 == FAdd(F1, FSq2(r0))
      d == FMul(FNeg(MONT_A), FInv(d1))
      inner == FAdd(FAdd(FSq(d), FMul(MONT_A, d)), F1)
      eps == FMul(d, inner)
      sq == SqrtRatio(eps, F1)[1]
      u0 == FAdd(d, IF sq THEN F0 ELSE MONT_A)
  IN IF sq THEN u0 ELSE FNeg(u0)
=============================================================================
