INIT Init
NEXT Next
INVARIANT LeakyLadder
CHECK_DEADLOCK FALSE
