----------------------------- MODULE BigNat -----------------------------
(***************************************************************************)
(* Natural numbers of arbitrary size as little-endian base-256 sequences.  *)
(* This is also the form in which the API and the JSON traces carry every  *)
(* value, so no conversion stands between a trace and the specification.   *)
(*                                                                         *)
(* Every operator is DEFINED here over Naturals.  TLC integers are 32-bit, *)
(* so for operands beyond that the definitions are evaluated by the Java   *)
(* module override BigNat.class (java.math.BigInteger), exactly like TLC's *)
(* own Naturals and Sequences.  spec/selftest checks override = definition *)
(* on operands small enough for native evaluation.                         *)
(***************************************************************************)
EXTENDS Naturals, Sequences

RECURSIVE Val(_)
Val(s) == IF s = <<>> THEN 0 ELSE Head(s) + 256 * Val(Tail(s))

RECURSIVE ToBytes(_, _)
ToBytes(n, len) == IF len = 0 THEN <<>>
                   ELSE <<n % 256>> \o ToBytes(n \div 256, len - 1)

IsBytes(s, len) == /\ Len(s) = len
                   /\ \A i \in 1..len : s[i] \in 0..255

\* ---- small constants -------------------------------------------------
BN(n, len)   == ToBytes(n, len)            \* n a native natural
Zero(len)    == [i \in 1..len |-> 0]
One(len)     == [i \in 1..len |-> IF i = 1 THEN 1 ELSE 0]

\* ---- arithmetic on naturals; results truncated to len bytes -----------
BAdd(a, b, len) == ToBytes(Val(a) + Val(b), len)
BMul(a, b, len) == ToBytes(Val(a) * Val(b), len)
\* a - b modulo 256^len (so also defined when a < b)
BSub(a, b, len) == ToBytes((Val(a) + (256^len - (Val(b) % 256^len))) % 256^len, len)
BDiv(a, b, len) == ToBytes(Val(a) \div Val(b), len)          \* b # 0
BMod(a, m)      == ToBytes(Val(a) % Val(m), Len(m))           \* m # 0
BShl(a, k, len) == ToBytes(Val(a) * 2^k, len)
BShr(a, k, len) == ToBytes(Val(a) \div 2^k, len)
Resize(a, len)  == ToBytes(Val(a), len)
BPow2(k, len)   == ToBytes(2^k, len)

\* ---- comparisons -------------------------------------------------------
BLt(a, b) == Val(a) < Val(b)
BLe(a, b) == Val(a) <= Val(b)
BEq(a, b) == Val(a) = Val(b)
BIsZero(a) == \A i \in 1..Len(a) : a[i] = 0

\* ---- bits ----------------------------------------------------------------
BBit(a, i) == IF (i \div 8) + 1 > Len(a) THEN 0
              ELSE (a[(i \div 8) + 1] \div (2^(i % 8))) % 2
BitLen(a) == IF BIsZero(a) THEN 0
             ELSE LET top == CHOOSE i \in 0..(8*Len(a)-1) :
                               /\ BBit(a, i) = 1
                               /\ \A j \in (i+1)..(8*Len(a)-1) : BBit(a, j) = 0
                  IN top + 1

\* ---- modular arithmetic; results have Len(m) bytes ------------------------
AddMod(a, b, m) == ToBytes((Val(a) + Val(b)) % Val(m), Len(m))
SubMod(a, b, m) == ToBytes(((Val(a) % Val(m)) + Val(m) - (Val(b) % Val(m))) % Val(m), Len(m))
MulMod(a, b, m) == ToBytes((Val(a) * Val(b)) % Val(m), Len(m))
NegMod(a, m)    == SubMod(Zero(Len(m)), a, m)

RECURSIVE PowNat(_, _, _)
PowNat(a, e, m) == IF e = 0 THEN 1 % m
                   ELSE LET h == PowNat(a, e \div 2, m)
                        IN IF e % 2 = 0 THEN (h * h) % m ELSE (((h * h) % m) * (a % m)) % m
PowMod(a, e, m) == ToBytes(PowNat(Val(a), Val(e), Val(m)), Len(m))

\* modular inverse for prime m, with 0 |-> 0 (the convention of the code)
InvMod(a, m) == IF Val(a) % Val(m) = 0 THEN Zero(Len(m))
                ELSE ToBytes(CHOOSE x \in 1..(Val(m)-1) : (x * Val(a)) % Val(m) = 1, Len(m))

=============================================================================
