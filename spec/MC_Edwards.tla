---------------------------- MODULE MC_Edwards ----------------------------
(***************************************************************************)
(* Toy curve, exhaustive: layer A refines layer D for ALL pairs of points  *)
(* of the full group (order 8 l'), in several projective representatives,  *)
(* and for all 256 encodings.                                              *)
(***************************************************************************)
EXTENDS EdwardsAlg, Params, TLC
VARIABLES p, q, bts, ph
Pts == CurvePoints
\* phase 0: every point (unary facts); phase 1: every second point; phase 2: every encoding
Init == \/ (p \in Pts /\ q = p /\ bts = Zero(LEN) /\ ph = 0)
        \/ (p = Identity /\ q = p /\ bts \in Bytes(LEN) /\ ph = 2)
Next == ph = 0 /\ ph' = 1 /\ q' \in Pts /\ UNCHANGED <<p, bts>>

Zs == {F1, FN(2), FN(3), FNeg(F1)}
Reps(a) == {Scale(FromAffine(a), z) : z \in Zs}
GroupOrder == 8 * Val(L)

StructureOK ==
  /\ Cardinality(Pts) = GroupOrder
  /\ OnCurve(BasePt) /\ IsTorsionFree(BasePt) /\ BasePt # Identity
  /\ SMul(BN(8, 1), T8Pt) = Identity /\ SMul(BN(4, 1), T8Pt) # Identity
  /\ Cardinality({Torsion(i) : i \in 0..7}) = 8
  /\ ~IsSquare(D)                                              \* completeness of the law
UnaryOK ==
  /\ OnCurve(p) /\ PtAdd(p, Identity) = p /\ PtAdd(p, PtNeg(p)) = Identity
  /\ SMul(BN(GroupOrder, 2), p) = Identity
  /\ IsSmallOrder(p) = (\E i \in 0..7 : p = Torsion(i))
  /\ IsTorsionFree(p) = (\E k \in 0..(Val(L) - 1) : p = SMul(BN(k, 1), BasePt))
  /\ DecompressPt(Compress(p)) = p /\ Decompress(Compress(p))[1]
  /\ \A e \in Reps(p) :
       /\ ExtValid(e)
       /\ ExtValid(EDouble(e)) /\ ToAffine(EDouble(e)) = PtDouble(p)
       /\ ToAffine(ENeg(e)) = PtNeg(p) /\ ExtValid(ENeg(e))
       /\ ToAffine(EMulByPow2(e, 3)) = MulByCofactor(p) /\ ExtValid(EMulByPow2(e, 3))
       /\ ECompress(e) = Compress(p)
EncodingOK ==
  LET d == Decompress(bts)  a == EDecompress(bts)  y == FromBytes(bts) IN
  /\ d[1] = (\E x \in FieldSet : OnCurve(<<x, y>>))            \* accepts exactly the y with an x
  /\ a[1] = d[1]
  /\ (d[1] => /\ OnCurve(d[2]) /\ d[2][2] = y
              /\ (FIsNeg(d[2][1]) = (TopBit(bts) = 1) \/ FIsZero(d[2][1]))
              /\ ExtValid(a[2]) /\ ToAffine(a[2]) = d[2]
              /\ Compress(d[2]) = SetTop(y, IF FIsNeg(d[2][1]) THEN 1 ELSE 0))
PairOK ==
  /\ OnCurve(PtAdd(p, q)) /\ PtAdd(p, q) = PtAdd(q, p)
  /\ \A e \in Reps(p) : \A f \in {FromAffine(q), Scale(FromAffine(q), FN(5))} :
       /\ ExtValid(EAdd(e, f)) /\ ToAffine(EAdd(e, f)) = PtAdd(p, q)
       /\ ExtValid(ESub(e, f)) /\ ToAffine(ESub(e, f)) = PtSub(p, q)
       /\ ToAffine(CompletedToExt(AddAN(e, AffNiels(f)))) = PtAdd(p, q)
       /\ ToAffine(CompletedToExt(SubAN(e, AffNiels(f)))) = PtSub(p, q)
       /\ ToAffine(CompletedToExt(AddPN(e, NegProjNiels(ProjNiels(f))))) = PtSub(p, q)
       /\ ToAffine(CompletedToExt(AddAN(e, NegAffNiels(AffNiels(f))))) = PtSub(p, q)
       /\ EEq(e, f) = (p = q)
Inv == /\ (ph = 0 /\ p = Identity => StructureOK)
       /\ (ph = 0 => UnaryOK) /\ (ph = 2 => EncodingOK) /\ (ph = 1 => PairOK)
=============================================================================
