---------------------------- MODULE MC_Ed25519 ----------------------------
(***************************************************************************)
(* Toy curve, hash abstracted to an arbitrary challenge / nonce in Z/l':   *)
(* every honest signature is accepted by all variants; the accepted set    *)
(* has no second encoding; strict rejects small order; batch equation.     *)
(***************************************************************************)
EXTENDS Ed25519, Params, TLC
VARIABLES A, S, kk, ph
Scal == {ToBytes(n, LEN) : n \in 0..(Val(L) - 1)}
Init == A \in Bytes(LEN) /\ S = Zero(LEN) /\ kk = Zero(LEN) /\ ph = 0
Next == ph = 0 /\ ph' = 1 /\ S' \in Bytes(LEN) /\ kk' \in Scal /\ UNCHANGED A
Ap == DecompressPt(A)
\* the unique R bytes the predicate can accept for (A, k, S)
Rwant == Compress(PtSub(SMul(S, BasePt), SMul(kk, Ap)))
Sig(R) == R \o S
AcceptSetOK ==
  Decompress(A)[1] =>
    /\ (AcceptsK(A, kk, Sig(Rwant), FALSE) = BLt(S, L))                       \* canonical S is necessary and sufficient
    /\ (AcceptsK(A, kk, Sig(Rwant), TRUE) = (S[LEN] \div 32 = 0))              \* legacy: top three bits
    /\ \A R \in {SetTop(Rwant, 1 - TopBit(Rwant)), BAdd(ClearTop(Rwant), P, LEN), Zero(LEN)} :
         R # Rwant => ~AcceptsK(A, kk, Sig(R), FALSE)                          \* no second encoding of R
    /\ (BLt(S, L) => ~SOk(BAdd(S, L, LEN), FALSE) \/ BAdd(S, L, LEN) = S)     \* S + l is never canonical
    /\ (AcceptsK(A, kk, Sig(Rwant), FALSE) /\ StrictExtra(A, Sig(Rwant))
          => ~IsSmallOrder(Ap) /\ ~IsSmallOrder(DecompressPt(Rwant)))
    /\ (IsSmallOrder(Ap) => ~StrictExtra(A, Sig(Rwant)))
HonestOK ==      \* a = secret scalar with A = [a]B, r = S as nonce: the signature (R = [r]B, S' = r + k a) verifies
  \A a \in Scal :
    LET Ah == Compress(SMul(a, BasePt))
        r == ScReduce(S)
        R == Compress(SMul(r, BasePt))
        Sh == ScAdd(r, ScMul(kk, a))
    IN /\ AcceptsK(Ah, kk, R \o Sh, FALSE) /\ AcceptsK(Ah, kk, R \o Sh, TRUE)
       /\ (a # Zero(LEN) /\ r # Zero(LEN) => StrictExtra(Ah, R \o Sh))
       \* under another challenge it is rejected, except when k' a = k a
       /\ \A k2 \in Scal : AcceptsK(Ah, k2, R \o Sh, FALSE) = (ScMul(k2, a) = ScMul(kk, a))
\* the reduction of the challenge before multiplying a mixed-order A matters (so it is specified)
Inv == (ph = 1 => AcceptSetOK) /\ (ph = 1 /\ A = BASE => HonestOK)
=============================================================================
