CONSTANTS
  R = 4
  N = 2
  C = 5
  H = 2
  WB = 12
  BSET = "SOME"
INIT Init
NEXT Next
INVARIANT Inv0
INVARIANT Inv1
CHECK_DEADLOCK FALSE
