INIT Init
NEXT Next
INVARIANT LeakySqrt
CHECK_DEADLOCK FALSE
