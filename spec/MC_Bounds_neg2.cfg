CONSTANTS
  BACKEND = "u32"
  MUTANT = "neg_from_2p"
INIT Init
NEXT Next
INVARIANT NoViolation
INVARIANT TypeInv
CHECK_DEADLOCK FALSE
