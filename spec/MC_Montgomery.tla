--------------------------- MODULE MC_Montgomery ---------------------------
(* Toy curve, exhaustive over all 256 x 256 (k, u) byte pairs and all Edwards points. *)
EXTENDS Montgomery, Params, TLC
VARIABLES k, ub, ph
Init == k \in Bytes(LEN) /\ ub = k /\ ph = 0
Next == ph = 0 /\ ph' = 1 /\ ub' \in Bytes(LEN) /\ UNCHANGED k
u == DecodeU(ub)
Pts == CurvePoints

LadderOK ==
  /\ X25519(k, ub) = MontMul(ub, Clamp(k))                      \* RFC ladder = dalek ladder, every (k, u)
  /\ RfcLadder(ClearTop(k), u) = MontMul(ub, ClearTop(k))       \* also for unclamped scalars below 2^(8 LEN - 1)
  /\ IsCanonical(X25519(k, ub))
  /\ X25519(k, SetTop(ub, 1)) = X25519(k, SetTop(ub, 0))         \* top bit of u ignored
  /\ MontEq(ub, FToBytes(u))
\* on-curve u: the ladder is the u-coordinate of the Edwards scalar multiple; both sign choices
MapOK ==
  \A sg \in {0, 1} :
    LET e == ToEdwards(ub, sg) IN
    /\ (u = FMinusOne => ~e[1])
    /\ (e[1] => /\ OnCurve(e[2])
                /\ ToMontgomery(e[2]) = u
                /\ (FIsNeg(e[2][1]) = (sg = 1) \/ FIsZero(e[2][1]))
                /\ X25519(k, ub) = ToMontgomery(SMul(Clamp(k), e[2]))
                /\ MontMul(ub, ClearTop(k)) = ToMontgomery(SMul(ClearTop(k), e[2])))
    \* rejected exactly for u = -1 and for the u that are not on the curve (twist)
    /\ (e[1] = (u # FMinusOne /\ OnMontCurve(u)))
PointsOK ==            \* evaluated once (ph = 0, k = 0)
  /\ \A p \in Pts : /\ (p = Identity => ToMontgomery(p) = F0)
                    /\ (p # Identity => \E sg \in {0, 1} : ToEdwards(ToMontgomery(p), sg) = <<TRUE, p>>)
  /\ ToMontgomery(BasePt) = MontMul(ToMontgomery(BasePt), One(LEN))
ElligatorOK ==          \* the Elligator output is always on the curve and never -1, so the expect() cannot fire
  LET m == ElligatorEncode(u) IN OnMontCurve(m) /\ m # FMinusOne /\ \A sg \in {0, 1} : ToEdwards(m, sg)[1]
DHOK ==                 \* both parties derive the same secret; contributory check
  LET pa == ToMontgomery(SMul(Clamp(k), BasePt))
      pb == ToMontgomery(SMul(Clamp(ub), BasePt))
  IN X25519(k, pb) = X25519(ub, pa)
Inv == /\ (ph = 0 /\ k = Zero(LEN) => PointsOK)
       /\ (ph = 0 => ElligatorOK)
       /\ (ph = 1 => LadderOK /\ MapOK /\ DHOK)
=============================================================================
