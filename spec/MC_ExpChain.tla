---- MODULE MC_ExpChain ----
EXTENDS ExpChain
====
