----------------------------- MODULE BoundsIfma -----------------------------
(***************************************************************************)
(* Layer I, AVX-512 IFMA part (C11): limb bounds through the 4-lane field  *)
(* operations of backend/vector/ifma/field.rs and the parallel formulas of *)
(* backend/vector/ifma/edwards.rs.  The backend documents no numeric       *)
(* bounds: its contract is the type discipline F51x4Unreduced (64-bit      *)
(* limbs, anything) / F51x4Reduced (a legal vpmadd52 multiplicand).  The   *)
(* model re-derives, instruction by instruction, what that discipline has  *)
(* to guarantee:                                                            *)
(*   P1  every multiplicand of vpmadd52{l,h}uq that is meant to be used in  *)
(*       full is below 2^52 (the instruction silently drops higher bits);   *)
(*   P2  no 64-bit accumulator or lane addition wraps;                      *)
(*   P3  negate_lazy never underflows: limb 0 <= 2^55 - 304, limbs 1..4    *)
(*       <= 2^55 - 16 (the constants are 16p).                              *)
(* An abstract vector is, per lane and limb, an inclusive upper bound in    *)
(* units of u = 2^40 (rounded up), so 2^51 = 2048, 2^52 = 4096 = T,         *)
(* 2^55 = 32768 and 2^64 = 2^24.  Every vpmadd52luq adds at most T - 1,     *)
(* every vpmadd52huq of two multiplicands bounded by a, b adds at most      *)
(* a*b / 2^52.  The counts of low and high halves per output limb are read  *)
(* off the limb-exact kernel model IfmaField.tla (which trace validation    *)
(* binds to the code limb by limb).                                         *)
(*                                                                         *)
(* NEGBITS is the size of the multiple of p that negate_lazy subtracts      *)
(* from: 2^NEGBITS - 304 / - 16 for NEGBITS = 55 (16p, the constants the    *)
(* pinned commit shipped), 2^56 - 608 / - 32 for NEGBITS = 56 (32p, after   *)
(* the repair b1).  With 16p, P3 FAILS for limb 4 of a product or square:   *)
(* its interval bound is 6 T (six low halves) + 2 * 4 * T/4 (eight high     *)
(* halves) = 2^55 + 3600-odd, above 2^55 - 16, and the bound is attained    *)
(* closely enough - spec/MC_BoundsIfma_16p.cfg is the kept counterexample   *)
(* and tools/checks/c11.py replays a concrete pair of admissible operands   *)
(* (all limbs about 2^51, x_4 y_4 chosen so that 38 hi(x_4 y_4) = -1 mod    *)
(* 2^52) through the real kernels.  With 32p every obligation is            *)
(* interval-derivable.                                                      *)
(***************************************************************************)
EXTENDS Naturals, Sequences, FiniteSets, TLC

CONSTANTS NEGBITS,   \* 55: negate_lazy subtracts from 16p; 56: from 32p (IfmaField.tla has the literal constants)
          MUTANT     \* "none" or the name of a seeded design error (kept counterexamples)

T == 4096            \* 2^52
H == 2048            \* 2^51
NEGC == 2^(NEGBITS - 40)     \* the 16p / 32p constants, rounded up
WRAP == 16777216     \* 2^64
S == 1               \* anything below 2^40: carries (< 2^13), 19 * carries, high halves of 19 * z
Lanes == 1..4
Limbs == 1..5        \* limb k of the code is index k+1

\* ---- abstract vectors ------------------------------------------------------------------
\* b: bound per lane and limb; cy: for a Reduced vector, an EXACT integer bound on the carries that were added to its masked
\* limbs (limb k is at most 2^51 - 1 + cy, limb 0 at most 2^51 - 1 + 19 cy); 0 for other vectors
Vec(b, cy) == [b |-> b, cy |-> cy]
Const(x) == Vec([l \in Lanes |-> [k \in Limbs |-> x]], 0)
Zero == Const(0)
Max2(a, b) == IF a >= b THEN a ELSE b
Shuffle(v, p) == Vec([l \in Lanes |-> v.b[p[l]]], v.cy)
\* m[l] = 1 takes the lane from w
Blend(v, w, m) == Vec([l \in Lanes |-> IF m[l] = 1 THEN w.b[l] ELSE v.b[l]], Max2(v.cy, w.cy))
NoWrap(v) == \A l \in Lanes, k \in Limbs : v.b[l][k] < WRAP
Add(v, w) == Vec([l \in Lanes |-> [k \in Limbs |-> v.b[l][k] + w.b[l][k]]], 0)
MaxLimb(v) == CHOOSE m \in {v.b[l][k] : l \in Lanes, k \in Limbs} : \A l \in Lanes, k \in Limbs : v.b[l][k] <= m
\* P3.  (NEGC - 1) * u is below the constants, so a bound of at most NEGC - 1 is sufficient
CanNegate(v) == \A l \in Lanes, k \in Limbs : v.b[l][k] <= NEGC - 1
NegateLazy(v) == Const(NEGC)
\* From<F51x4Unreduced> for F51x4Reduced: mask + carry-in; limb 0 gets 19 * carry-out of limb 4
ReducedLimb == H + S
\* carry-out of a limb below b * 2^40 is at most b * 2^40 / 2^51 = b / 2048
Reduce(v) == [Const(ReducedLimb) EXCEPT !.cy = (MaxLimb(v) \div H) + 1]
IsMultiplicand(v) == \A l \in Lanes, k \in Limbs : v.b[l][k] <= T        \* P1
\* bound of hi(x, y) for multiplicand bounds a, b (in u): a * b / 2^52, rounded up
\* (a multiplicand above 2^52 is truncated by the instruction - that is P1, flagged separately - so the addend stays below 2^52)
Hi(a, b) == IF a > T \/ b > T THEN T ELSE ((a * b) \div T) + 1

\* &F51x4Reduced * &F51x4Reduced.  nlo[k], nhi[k]: how many vpmadd52luq / vpmadd52huq results of LIMB PRODUCTS end up in
\* output limb k (coefficient-2 accumulators counted twice), read off the code; the 19-fold terms contribute one more
\* low half (already counted in nlo) and at most 2 * 2 * S.
MulLo == <<2, 3, 4, 5, 6>>
MulHi == <<0, 1, 2, 3, 4>>
MulOut(a, b, lo, hi, hicoef) ==
  LET hb(l) == Hi(a.b[l][1], b.b[l][1])          \* all limbs of a Reduced operand share one bound
      bb == [l \in Lanes |-> [k \in Limbs |-> lo[k] * T + hicoef * hi[k] * hb(l) + 4 * S]]
  IN Vec(bb, 0)
Mul(a, b) == MulOut(a, b, MulLo, MulHi, 2)
\* F51x4Reduced::square: the coefficient-4 accumulators shift their high halves left by two
SqLo == <<2, 3, 4, 5, 6>>
SqHiW == <<0, 2, 4, 6, 8>>                       \* weighted count of high halves per output limb
Square(a) == MulOut(a, a, SqLo, SqHiW, 1)
\* the accumulators feeding the 19-fold: z5..z9 = (<= 4 low halves) + 2 * (<= 5 high halves), far below 2^64 (P2)
MulAccumulatorsFit(a, b) == \A l \in Lanes : 4 * T + 2 * 5 * Hi(a.b[l][1], b.b[l][1]) < WRAP
\* &F51x4Reduced * (u32, u32, u32, u32) with constants below 2^19: one low half per limb, high halves below 2^19
MulConst(a) == Const(T + 2 * S)

\* ---- the parallel formulas (ifma/edwards.rs); each returns <<result, preconditions hold>> ------------------------
P_BADC == <<2, 1, 4, 3>>  P_ABAB == <<1, 2, 1, 2>>  P_AAAA == <<1, 1, 1, 1>>  P_BBBB == <<2, 2, 2, 2>>
P_ABDC == <<1, 2, 4, 3>>  P_ADDA == <<1, 4, 4, 1>>  P_CBCB == <<3, 2, 3, 2>>  P_DBBD == <<4, 2, 2, 4>>
P_CACA == <<3, 1, 3, 1>>  P_BACD == <<2, 1, 3, 4>>
M_D == <<0, 0, 0, 1>>  M_C == <<0, 0, 1, 0>>  M_AB == <<1, 1, 0, 0>>  M_AC == <<1, 0, 1, 0>>  M_AD == <<1, 0, 0, 1>>  M_BCD == <<0, 1, 1, 1>>

DiffSum(v) == LET nl == NegateLazy(v)
                  r == Add(Shuffle(v, P_BADC), Blend(v, nl, M_AC))
              IN <<r, CanNegate(v) /\ NoWrap(r)>>
Double(e) ==
  LET t0a == Shuffle(e, P_BADC)
      s == Add(e, t0a)
      t1a == Shuffle(s, P_ABAB)
      t0b == Blend(e, t1a, M_D)
      red == Reduce(t0b)
      t1 == Square(red)                                   \* (S1 S2 S3 S4)
      S1 == Shuffle(t1, P_AAAA)  S2 == Shuffle(t1, P_BBBB)
      toNeg == IF MUTANT = "double_negate_sum" THEN Add(Blend(S2, t1, M_D), S1) ELSE Blend(S2, t1, M_D)
      S2S4 == NegateLazy(toNeg)
      a0 == Add(S1, Blend(Zero, Add(t1, t1), M_C))
      a1 == Add(a0, Blend(Zero, S2, M_AD))
      a2 == Add(a1, Blend(Zero, S2S4, M_BCD))
      red2 == IF MUTANT = "double_skip_reduce" THEN a2 ELSE Reduce(a2)
      out == Mul(Shuffle(red2, P_DBBD), Shuffle(red2, P_CACA))
  IN <<out, NoWrap(s) /\ NoWrap(t0b) /\ IsMultiplicand(red) /\ MulAccumulatorsFit(red, red) /\ CanNegate(toNeg)
            /\ NoWrap(a0) /\ NoWrap(a1) /\ NoWrap(a2) /\ IsMultiplicand(red2) /\ MulAccumulatorsFit(red2, red2) /\ NoWrap(out)>>
ToCached(e) ==
  LET ds == DiffSum(e)
      x0 == Blend(e, ds[1], M_AB)
      r0 == Reduce(x0)
      x1 == MulConst(r0)
      x2 == Blend(x1, NegateLazy(x1), M_D)
  IN <<Reduce(x2), ds[2] /\ NoWrap(x0) /\ IsMultiplicand(r0) /\ CanNegate(x1) /\ NoWrap(x2)>>
NegCached(c) ==                                            \* c is Reduced
  LET sw == Shuffle(c, P_BACD)
      ng == Reduce(NegateLazy(c))                          \* Neg for F51x4Reduced
  IN <<Blend(sw, ng, M_D), CanNegate(c)>>
AddCached(e, c) ==
  LET ds == DiffSum(e)
      t == Blend(e, ds[1], M_AB)
      rt == Reduce(t)
      m1 == Mul(rt, c)
      sh == Shuffle(m1, P_ABDC)
      ds2 == DiffSum(sh)
      r2 == IF MUTANT = "add_skip_reduce" THEN ds2[1] ELSE Reduce(ds2[1])
      out == Mul(Shuffle(r2, P_ADDA), Shuffle(r2, P_CBCB))
  IN <<out, ds[2] /\ NoWrap(t) /\ IsMultiplicand(rt) /\ IsMultiplicand(c) /\ MulAccumulatorsFit(rt, c) /\ NoWrap(m1) /\ ds2[2]
            /\ IsMultiplicand(r2) /\ MulAccumulatorsFit(r2, r2) /\ NoWrap(out)>>

\* ---- state machine: any chain of the point operations -------------------------------------------------------------
VARIABLES ext, cached, ok, last
vars == <<ext, cached, ok, last>>
\* ExtendedPoint::from(EdwardsPoint): the serial coordinates are outputs of the serial kernels (below 2^51 + 2^40) - taken
\* generously as anything below 2^52; the shipped table entries and identity() are reduced
Init == ext = Const(T) /\ cached = [Const(ReducedLimb) EXCEPT !.cy = 1] /\ ok = TRUE /\ last = "init"
DoDouble == LET r == Double(ext) IN ext' = r[1] /\ ok' = (ok /\ r[2]) /\ last' = "double" /\ UNCHANGED cached
DoToCached == LET r == ToCached(ext) IN cached' = r[1] /\ ok' = (ok /\ r[2]) /\ last' = "to_cached" /\ UNCHANGED ext
DoNegCached == LET r == NegCached(cached) IN cached' = r[1] /\ ok' = (ok /\ r[2]) /\ last' = "neg_cached" /\ UNCHANGED ext
DoAdd == LET r == AddCached(ext, cached) IN ext' = r[1] /\ ok' = (ok /\ r[2]) /\ last' = "add" /\ UNCHANGED cached
\* EdwardsPoint::from(ExtendedPoint) reduces and splits: always defined (P2 only); a fresh conversion restarts the chain
DoRoundTrip == ext' = Const(T) /\ ok' = (ok /\ NoWrap(ext)) /\ last' = "round_trip" /\ UNCHANGED cached
Next == DoDouble \/ DoToCached \/ DoNegCached \/ DoAdd \/ DoRoundTrip
PreconditionsHold == ok
\* the representation invariant of the two point types: what every operation may assume of its inputs
\* (carries stay below 2^7: a Reduced limb is at most 2^51 + 19 * 127, a legal multiplicand with room to spare)
TypeInv == /\ NoWrap(ext) /\ IsMultiplicand(cached) /\ cached.cy <= 127 /\ CanNegate(ext)
\* the interval bounds themselves (documentation of the margins): product limbs are below (4, 3.5+, 5+, 6.5+, 8+) * 2^52
Margins == last \in {"double", "add"} =>
             \A l \in Lanes : ext.b[l][1] <= 2 * T + 8 /\ ext.b[l][2] <= 3 * T + 2 * 1026 + 8 /\ ext.b[l][3] <= 4 * T + 4 * 1026 + 8
                              /\ ext.b[l][4] <= 5 * T + 6 * 1026 + 8 /\ ext.b[l][5] <= 6 * T + 8 * 1026 + 8
=============================================================================
