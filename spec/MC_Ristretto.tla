--------------------------- MODULE MC_Ristretto ---------------------------
(***************************************************************************)
(* Toy curve, exhaustive: all 256 encodings, every point of the full group *)
(* in several projective scalings, all pairs, all 65 536 map inputs.       *)
(***************************************************************************)
EXTENDS Ristretto, Params, TLC
VARIABLES b, c, ph
Init == b \in Bytes(LEN) /\ c = b /\ ph = 0
Next == ph = 0 /\ ph' = 1 /\ c' \in Bytes(LEN) /\ UNCHANGED b
Pts == CurvePoints
Even == {PtDouble(p) : p \in Pts}                                   \* 2E
T4 == {Torsion(0), Torsion(2), Torsion(4), Torsion(6)}              \* E[4]
Coset(p) == {PtAdd(p, t) : t \in T4}
Zs == {F1, FN(2), FNeg(F1), FN(7)}
Encs == {RistEncodeAff(p) : p \in Even}
\* E is cyclic of order 8l, so 2E is its unique subgroup of order 4l
InEven(p) == SMul(BN(4 * Val(L), 2), p) = Identity

\* evaluated once
GlobalOK ==
  /\ Cardinality(Even) = 4 * Val(L) /\ \A p \in Pts : InEven(p) = (p \in Even)
  /\ Cardinality(Encs) = Val(L)                                      \* the group has order l
  /\ {x \in Bytes(LEN) : RistDecode(x)[1]} = Encs                    \* exactly the l canonical encodings decode
  /\ \A p \in Even :
       /\ \A q \in Coset(p) : \A z \in Zs : RistEncode(Scale(FromAffine(q), z)) = RistEncodeAff(p)
       /\ \A q \in Even : (RistEncodeAff(q) = RistEncodeAff(p)) = (q \in Coset(p))       \* injective across cosets
       /\ \A q \in Even : RistEq(FromAffine(p), Scale(FromAffine(q), FN(3))) = (q \in Coset(p))
       /\ LET d == RistDecode(RistEncodeAff(p)) IN d[1] /\ ToAffine(d[2]) \in Coset(p) /\ ExtValid(d[2])
       /\ DoubleAndCompressBatch(<<FromAffine(p), ExtIdentity, Scale(FromAffine(p), FN(5))>>)
            = <<RistEncodeAff(PtDouble(p)), RistEncodeAff(Identity), RistEncodeAff(PtDouble(p))>>
  \* batched double-and-compress also on representatives outside 2E (any point of E doubles into 2E)
  /\ \A p \in Pts : DoubleAndCompressBatch(<<FromAffine(p)>>) = <<RistEncodeAff(PtDouble(p))>>
  /\ DoubleAndCompressBatch(<<>>) = <<>>
  /\ \A p \in Pts : \A q \in Pts : RistEq(FromAffine(p), FromAffine(q)) = (q \in Coset(p))
  /\ {r \in {RistDecode(x)[3] : x \in Bytes(LEN)} : TRUE} = {"ok", "non-canonical", "negative s", "non-square", "negative t", "y = 0"}
DecodeOK ==
  LET d == RistDecode(b) IN
  /\ (d[1] => /\ RistEncode(d[2]) = b                               \* re-encoding returns the input
              /\ ExtValid(d[2]) /\ InEven(ToAffine(d[2])))
MapOK ==
  LET m == RistMap(FromBytes(b))  u == RistFromUniform(b \o c) IN
  /\ ExtValid(m) /\ InEven(ToAffine(m))
  /\ ExtValid(u) /\ InEven(ToAffine(u))
  /\ ToAffine(u) = PtAdd(ToAffine(RistMap(FromBytes(b))), ToAffine(RistMap(FromBytes(c))))
Inv == /\ (ph = 0 /\ b = Zero(LEN) => GlobalOK)
       /\ (ph = 0 => DecodeOK)
       /\ (ph = 1 => MapOK)
\* (TLC shows the coset-equality formula is exact on ALL of E, not only on 2E: checked in GlobalOK)
=============================================================================
