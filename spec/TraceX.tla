------------------------------ MODULE TraceX ------------------------------
(***************************************************************************)
(* Trace specification for x25519-dalek SESSIONS (C07): the events of the  *)
(* driver's xs.* operations - live typed secrets, wire slots, an adversary *)
(* that injects, re-encodes and copies keys - are explained by the         *)
(* transition functions of Xproto.tla at full size.  The session record    *)
(* lives in the specification's register file under the name "xs".         *)
(***************************************************************************)
EXTENDS Xproto, Ed25519, TraceBase

XsOps == {"xs.new", "xs.drop", "xs.publish", "xs.inject", "xs.copy", "xs.alias", "xs.dh"}
XsState == IF "xs" \in DOMAIN regs THEN regs["xs"].st ELSE XInitState
\* <<verdict, what the specification expected, next session state>>
XsNext(e, st) ==
  LET o == e.obs IN
  CASE e.op = "xs.new" -> <<TRUE, "", XNew(st, e.p, e.kind, e.in[1])>>
    [] e.op = "xs.drop" -> <<TRUE, "", XDrop(st, e.p)>>
    [] e.op = "xs.publish" ->
         IF XPublishEnabled(st, e.p)
         THEN LET s2 == XPublish(st, e.p, e.w) IN
              <<o.live /\ o.u = s2.wire[e.w].u /\ o.to_bytes = o.u /\ IsCanonical(o.u), s2.wire[e.w].u, s2>>
         ELSE <<~o.live, "no live secret", st>>
    [] e.op = "xs.inject" -> <<o.u = e.in[1], "", XInject(st, e.w, e.in[1])>>
    [] e.op = "xs.copy" -> LET s2 == XCopy(st, e.w, e.w2) IN <<o.u = s2.wire[e.w2].u, s2.wire[e.w2].u, s2>>
    [] e.op = "xs.alias" -> LET s2 == XAlias(st, e.w, e.addp, e.top) IN
                            <<o.u = s2.wire[e.w].u /\ DecodeU(o.u) = DecodeU(st.wire[e.w].u), s2.wire[e.w].u, s2>>
    [] e.op = "xs.dh" ->
         IF XDHEnabled(st, e.p, e.w)
         THEN LET s2 == XDH(st, e.p, e.w) IN
              <<o.live /\ o.ss = s2.last.ss /\ o.to_bytes = o.ss /\ o.contributory = s2.last.contributory
                  /\ o.theirs = st.wire[e.w].u /\ XLastOK(s2) /\ XWireOK(s2) /\ XLifeOK(s2),
                <<s2.last.ss, s2.last.contributory>>, s2>>
         ELSE <<~o.live, "no live secret", st>>
\* equality of the wire types CompressedRistretto and CompressedEdwardsY is equality of the 32 bytes - for == and ct_eq; equal
\* strings hash alike, which is all the Hash contract promises (MontgomeryPoint, and with it x25519 PublicKey, compares the VALUE mod p: that is mont.eq in TraceMisc)
EncEqStep ==
  /\ l <= Len(Rec) /\ Rec[l].op = "enc.eq"
  /\ LET e == Rec[l]  x == (e.in[1] = e.in[2]) IN
       Note(NoPanic(e) /\ e.obs.eq = x /\ e.obs.ct = x /\ (x => e.obs.hash_eq), e, x)
  /\ l' = l + 1 /\ UNCHANGED regs
\* PKCS#8 (C16): a v2 private-key document is accepted exactly when its embedded public key is THE public key of the seed (the rule
\* of from_keypair_bytes); a document without one always; a SubjectPublicKeyInfo exactly when the bytes decode as a point; the
\* library's own documents round-trip
Pkcs8Step ==
  /\ l <= Len(Rec) /\ Rec[l].op = "serde.pkcs8"
  /\ LET e == Rec[l]  o == e.obs  pk == PublicKey(e.in[1])  x == (e.in[2] = pk) IN
       Note(NoPanic(e) /\ o.ok_try = x /\ o.ok_der = x /\ o.none_ok /\ o.rt /\ o.rt_pub /\ o.vk = pk
              /\ o.spki_ok = Decompress(e.in[2])[1] /\ o.native_ok = o.spki_ok, e, <<x, pk>>)
  /\ l' = l + 1 /\ UNCHANGED regs
XsStep ==
  /\ l <= Len(Rec) /\ Rec[l].op \in XsOps
  /\ LET e == Rec[l] IN
       IF ~NoPanic(e) THEN Note(FALSE, e, "panic") /\ UNCHANGED regs
       ELSE LET j == XsNext(e, XsState) IN Note(j[1], e, j[2]) /\ SetReg("xs", [t |-> "xs", st |-> j[3]])
  /\ l' = l + 1
=============================================================================
