---------------------------- MODULE MC_Scalar ----------------------------
(* Exhaustive check of Scalar.tla on a toy group order: all pairs of one-byte strings,
   all two-byte wide inputs, and a generic-radix Montgomery multiplication (layer A). *)
EXTENDS Scalar, Params, TLC, Integers
VARIABLES x, y, ph
Init == x \in Bytes(LEN) /\ y = x /\ ph = 0
Next == ph = 0 /\ ph' = 1 /\ y' \in Bytes(LEN) /\ UNCHANGED x
ell == Val(L)
a == ScReduce(x)
b == ScReduce(y)

DecodeOK ==
  /\ ScFromCanonical(x)[1] = (Val(x) < ell)
  /\ (ScFromCanonical(x)[1] => ScFromCanonical(x)[2] = x)
  /\ Val(a) = Val(x) % ell /\ ScIsCanonical(a)
  /\ Val(ScReduce(x \o y)) = (Val(x) + 256 * Val(y)) % ell        \* wide reduction, all 65536 inputs
ArithOK ==
  /\ Val(ScAdd(a, b)) = (Val(a) + Val(b)) % ell
  /\ Val(ScSub(a, b)) = (Val(a) + ell - Val(b)) % ell
  /\ Val(ScMul(a, b)) = (Val(a) * Val(b)) % ell
  /\ Val(ScNeg(a)) = (ell - Val(a)) % ell /\ ScNeg(S0) = S0
  /\ ScIsCanonical(ScAdd(a, b)) /\ ScIsCanonical(ScSub(a, b)) /\ ScIsCanonical(ScMul(a, b)) /\ ScIsCanonical(ScNeg(a))
  /\ ScSum(<<a, b, a>>, 1) = ScAdd(ScAdd(a, b), a) /\ ScSum(<<>>, 1) = S0
  /\ ScProd(<<a, b, a>>, 1) = ScMul(ScMul(a, b), a) /\ ScProd(<<>>, 1) = S1
  /\ (~BIsZero(a) => ScMul(a, ScInvert(a)) = S1 /\ ScInvert(a) = ScPow(a, BSub(L, BN(2, LEN), LEN)))
  /\ (~BIsZero(a) /\ ~BIsZero(b) =>
        LET r == ScBatchInvert(<<a, b>>) IN
          /\ r[1] = <<ScInvert(a), ScInvert(b)>>
          /\ ScMul(r[2], ScMul(a, b)) = S1)
  /\ ScBatchInvert(<<>>) = <<<<>>, S1>>
ClampOK ==
  LET c == Clamp(x) IN
  /\ c[1] % 8 = 0 /\ c[LEN] \div 64 = 1 /\ Clamp(c) = c
  /\ \A i \in 0..(8 * LEN - 1) : (i >= 3 /\ i < 8 * LEN - 2) => BBit(c, i) = BBit(x, i)

\* ---- layer A: Montgomery multiplication with radix 2^MW and MN limbs ----------------
MW == 2
MN == 3
RR0 == 2^(MW * MN)                              \* R = 64 > L
RECURSIVE InvOdd(_, _, _)
InvOdd(v, m, c) == IF (c * v) % m = 1 THEN c ELSE InvOdd(v, m, c + 1)
LFACTOR == (RR0 - InvOdd(ell, RR0, 1)) % RR0    \* -L^-1 mod R
MontReduce(t) == LET m == ((t % RR0) * LFACTOR) % RR0
                     u == (t + m * ell) \div RR0
                 IN IF u >= ell THEN u - ell ELSE u
MontMul(u, v) == MontReduce(u * v)
ToMont(u) == MontMul(u, (RR0 * RR0) % ell)
FromMont(u) == MontReduce(u)
MontOK ==
  LET u == Val(a)  v == Val(b) IN
  /\ (ell * LFACTOR + 1) % RR0 = 0
  /\ FromMont(MontMul(ToMont(u), ToMont(v))) = (u * v) % ell
  /\ MontMul(MontMul(u, v), (RR0 * RR0) % ell) = (u * v) % ell          \* mul = mont_mul(mont_mul(a,b), RR)
  /\ MontMul(u, v) < ell
  \* from_bytes_wide: lo*R/R + hi*RR/R with lo, hi the halves at the R boundary
  /\ LET w == Val(x) + 256 * Val(y)  lo == w % RR0  hi == w \div RR0
     IN (hi < RR0) => (MontMul(lo % ell, RR0 % ell) + MontMul(hi % ell, (RR0 * RR0) % ell)) % ell = w % ell
Inv == DecodeOK /\ ArithOK /\ ClampOK /\ MontOK
=============================================================================
