CONSTANTS
  NMAX = 5
  GROWTH = "doubling"
INIT Init
NEXT Next
INVARIANT NoTaintedFree
INVARIANT AllFreedAtEnd
CHECK_DEADLOCK FALSE
