------------------------------- MODULE Serde -------------------------------
(***************************************************************************)
(* Layer I: the serialised form of every serialisable type under the       *)
(* compact binary format (bincode: a fixed-size tuple is its raw bytes, a  *)
(* byte string is an 8-byte little-endian length followed by the bytes)    *)
(* and a self-describing format (JSON: an array of numbers), and the       *)
(* deserialisation rule = length rule + the native decoder's validity.     *)
(***************************************************************************)
EXTENDS Ristretto

TupleTypes == {"scalar", "ed", "ced", "ris", "cris", "mont", "xpub", "xstatic", "sig"}
BytesTypes == {"sk", "vk"}
PayloadLen(ty) == IF ty = "sig" THEN 2 * LEN ELSE LEN

\* the native decoder's verdict on a payload of the right length
NativeValid(ty, p) ==
  CASE ty = "scalar" -> BLt(p, L)
    [] ty \in {"ed", "vk"} -> Decompress(p)[1]
    [] ty = "ris" -> RistDecode(p)[1]
    [] OTHER -> TRUE
\* the bytes the decoded value serialises back to (what deserialise . serialise must preserve)
Canon(ty, p) == IF ty = "ed" THEN Compress(DecompressPt(p)) ELSE p

\* ---- serialisation of a valid value given by its native bytes p ------------------------------
Len8(n) == ToBytes(n, 8)
SerBin(ty, p) == IF ty \in BytesTypes THEN Len8(Len(p)) \o p ELSE Canon(ty, p)
SerJson(ty, p) == Canon(ty, p)                         \* the array of numbers

\* ---- deserialisation: <<ok, native bytes of the value>> ------------------------------------------
DeBin(ty, w, strict) ==
  LET n == PayloadLen(ty) IN
  IF ty \in BytesTypes THEN
       IF Len(w) < 8 THEN <<FALSE, <<>>>>
       ELSE LET k == Val(SubSeq(w, 1, 4))  hi == Val(SubSeq(w, 5, 8)) IN      \* 64-bit length prefix
            IF hi # 0 \/ k # n \/ Len(w) < 8 + n THEN <<FALSE, <<>>>>
            ELSE IF strict /\ Len(w) > 8 + n THEN <<FALSE, <<>>>>
            ELSE LET p == SubSeq(w, 9, 8 + n) IN IF NativeValid(ty, p) THEN <<TRUE, Canon(ty, p)>> ELSE <<FALSE, <<>>>>
  ELSE IF Len(w) < n THEN <<FALSE, <<>>>>
       ELSE IF strict /\ Len(w) > n THEN <<FALSE, <<>>>>              \* without `strict` bincode itself ignores trailing bytes
       ELSE LET p == SubSeq(w, 1, n) IN IF NativeValid(ty, p) THEN <<TRUE, Canon(ty, p)>> ELSE <<FALSE, <<>>>>
\* JSON: an array; every element must be a byte and the length must be exact
DeJson(ty, a) ==
  IF Len(a) # PayloadLen(ty) \/ (\E i \in 1..Len(a) : a[i] > 255) THEN <<FALSE, <<>>>>
  ELSE IF NativeValid(ty, a) THEN <<TRUE, Canon(ty, a)>> ELSE <<FALSE, <<>>>>
=============================================================================
