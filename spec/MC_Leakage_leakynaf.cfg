INIT Init
NEXT Next
INVARIANT LeakyNaf
CHECK_DEADLOCK FALSE
