------------------------------ MODULE Recode ------------------------------
(***************************************************************************)
(* Layer A: the signed-digit recodings of scalar.rs, parametric in the     *)
(* byte length of the scalar (32 for the real code, 1 or 2 in the toy      *)
(* models).  Digits are ordinary integers.  Each recoding is a loop with   *)
(* carried state, written as a recursive operator over the loop counter.   *)
(***************************************************************************)
EXTENDS BigNat, Integers, Sequences

NBitsOf(s) == 8 * Len(s)

\* bits pos .. pos+w-1 of s as an integer (bits beyond the end are 0)
RECURSIVE Window(_, _, _)
Window(s, pos, w) == IF w = 0 THEN 0 ELSE BBit(s, pos) + 2 * Window(s, pos + 1, w - 1)

\* ---- as_radix_16 ------------------------------------------------------------
Nibbles(s) == [i \in 1..(2 * Len(s)) |->
                 IF i % 2 = 1 THEN s[(i + 1) \div 2] % 16 ELSE s[i \div 2] \div 16]
RECURSIVE R16Loop(_, _, _, _)
R16Loop(nibs, i, carry, acc) ==
  IF i = Len(nibs) THEN Append(acc, nibs[i] + carry)          \* last digit is not recentred
  ELSE LET v == nibs[i] + carry
           c == (v + 8) \div 16
       IN R16Loop(nibs, i + 1, c, Append(acc, v - 16 * c))
Radix16(s) == R16Loop(Nibbles(s), 1, 0, <<>>)

\* ---- as_radix_2w ------------------------------------------------------------
DigitsCount(nbits, w) == (nbits + w - 1) \div w
Radix2wSizeHintN(nbits, w) == DigitsCount(nbits, w) + (IF w = 8 THEN 1 ELSE 0)
Radix2wSizeHint(w) == Radix2wSizeHintN(256, w)

\* returns <<digits (length count), final carry>>
RECURSIVE R2wLoop(_, _, _, _, _, _)
R2wLoop(s, w, i, count, carry, acc) ==
  IF i = count THEN <<acc, carry>>
  ELSE LET coef == carry + Window(s, i * w, w)
           c == (coef + 2^(w - 1)) \div 2^w
       IN R2wLoop(s, w, i + 1, count, c, Append(acc, coef - c * 2^w))
Radix2wRaw(s, w) == R2wLoop(s, w, 0, DigitsCount(NBitsOf(s), w), 0, <<>>)
\* the array the code returns: 2*Len(s) entries, final carry folded as in the code
Radix2w(s, w) ==
  IF w = 4 THEN Radix16(s)
  ELSE LET r == Radix2wRaw(s, w)
           n == Len(r[1])
           total == 2 * Len(s)
       IN [i \in 1..total |->
             IF w = 8 THEN (IF i <= n THEN r[1][i] ELSE IF i = n + 1 THEN r[2] ELSE 0)
             ELSE (IF i < n THEN r[1][i] ELSE IF i = n THEN r[1][i] + r[2] * 2^w ELSE 0)]

\* ---- non_adjacent_form --------------------------------------------------------
RECURSIVE NafLoop(_, _, _, _, _)
NafLoop(s, w, pos, carry, acc) ==
  IF pos >= NBitsOf(s) THEN <<SubSeq(acc, 1, NBitsOf(s)), carry>>
  ELSE LET window == carry + Window(s, pos, w) IN
       IF window % 2 = 0 THEN NafLoop(s, w, pos + 1, carry, Append(acc, 0))
       ELSE LET hi == window >= 2^(w - 1)
                d == IF hi THEN window - 2^w ELSE window
            IN NafLoop(s, w, pos + w, IF hi THEN 1 ELSE 0,
                       acc \o <<d>> \o [j \in 1..(w - 1) |-> 0])
NAFRaw(s, w) == NafLoop(s, w, 0, 0, <<>>)
NAF(s, w) == NAFRaw(s, w)[1]

\* ---- what the digits must denote (small operands only; native integers) --------
RECURSIVE DigitVal(_, _, _)
DigitVal(d, i, radix) == IF i > Len(d) THEN 0 ELSE d[i] + radix * DigitVal(d, i + 1, radix)
=============================================================================
