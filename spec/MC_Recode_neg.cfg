CONSTANTS NB = 1
INIT Init
NEXT Next
INVARIANT NoPrecondition
CHECK_DEADLOCK FALSE
