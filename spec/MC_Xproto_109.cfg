CONSTANTS
  LEN = 1
  P <- P_109
  D <- D_109
  L <- L_109
  BASE <- BASE_109
  T8ENC <- T8ENC_109
  SQRT_M1 <- SQRT_M1_109
  EXP_P58 <- EXP_P58_109
  EXP_QR <- EXP_QR_109
  EXP_P38 <- EXP_P38_109
  BASEPT <- BASEPT_109
  T8PT <- T8PT_109
  D2 <- D2_109
  SQRT_AD_MINUS_ONE <- SQRT_AD_MINUS_ONE_109
  INVSQRT_A_MINUS_D <- INVSQRT_A_MINUS_D_109
  ONE_MINUS_D_SQ <- ONE_MINUS_D_SQ_109
  D_MINUS_ONE_SQ <- D_MINUS_ONE_SQ_109
  MONT_A <- MONT_A_109
  APLUS2_OVER_FOUR <- APLUS2_OVER_FOUR_109
  MAXSTEPS = 4
  SECRETS <- SecretsSmall
  INJECT <- InjectClasses
INIT Init
NEXT Next
INVARIANT Inv
INVARIANT Agreement
INVARIANT AliasFree
INVARIANT DeadOK
VIEW View
CHECK_DEADLOCK FALSE
