------------------------------ MODULE AP_NafInd ------------------------------
(***************************************************************************)
(* Apalache: the width-w non-adjacent form of scalar.rs as an INDUCTIVE    *)
(* invariant over an unbounded number of steps (w = 5 and w = 8):          *)
(*   val = rec + carry * wgt,  carry in {0,1},  2|rec| < wgt,              *)
(*   every digit is zero or odd with |digit| < 2^(w-1).                    *)
(* With val < 2^255 (Scalar invariant #1) this gives a zero final carry,   *)
(* i.e. 256 digits suffice.  Checked as: Init => IndInv (length 0) and     *)
(* IndInv /\ Next => IndInv' (length 1 from IndInit).                      *)
(***************************************************************************)
EXTENDS Integers
CONSTANT
  \* @type: Int;
  WIDTHSEL
VARIABLES
  \* @type: Int;
  carry,
  \* @type: Int;
  val,
  \* @type: Int;
  rec,
  \* @type: Int;
  wgt,
  \* @type: Int;
  d
C5 == WIDTHSEL = 5
C8 == WIDTHSEL = 8
Width == IF WIDTHSEL = 5 THEN 32 ELSE 256
Half == IF WIDTHSEL = 5 THEN 16 ELSE 128
IndInv == /\ wgt >= 1
          /\ carry \in {0, 1}
          /\ val >= 0 /\ val < wgt
          /\ val = rec + carry * wgt
          /\ 2 * rec < wgt /\ 2 * rec > -wgt
          /\ d > -Half /\ d < Half /\ (d # 0 => d % 2 # 0)
IndInit == \E c \in {0, 1}, v \in Int, r \in Int, w \in Int, dd \in Int :
             carry = c /\ val = v /\ rec = r /\ wgt = w /\ d = dd /\ IndInv
Init == carry = 0 /\ val = 0 /\ rec = 0 /\ wgt = 1 /\ d = 0
Step == \E win \in 0..255 :
          /\ win < Width
          /\ LET window == carry + win IN
             IF window % 2 = 0
             THEN /\ d' = 0 /\ val' = val + (win % 2) * wgt /\ rec' = rec /\ carry' = carry /\ wgt' = 2 * wgt
             ELSE LET dig == IF window < Half THEN window ELSE window - Width IN
                  /\ d' = dig /\ rec' = rec + dig * wgt /\ carry' = (IF window < Half THEN 0 ELSE 1)
                  /\ val' = val + win * wgt /\ wgt' = Width * wgt
Next == Step
Inv == IndInv
=============================================================================
