---------------------------- MODULE AP_Radix2w ----------------------------
(***************************************************************************)
(* Apalache: Scalar::as_radix_2w (w = 5..8) as a loop over SYMBOLIC        *)
(* windows, i.e. for ALL scalars below 2^255 at full size (TLC covers all  *)
(* 16-bit scalars in MC_Recode, where the extraction of a window that      *)
(* straddles two 64-bit words is modelled too; here a window is just an    *)
(* integer below 2^w).  digits_count = ceil(256 / w) windows are all       *)
(* recentred; the top window holds the 256 - w (count - 1) remaining bits, *)
(* the highest of which (bit 255) is clear by Scalar invariant #1.         *)
(* Invariant: consumed value = recoded value + carry * 2^(w i); every      *)
(* digit is in [-2^(w-1), 2^(w-1)); at the end, for w < 8 the final carry  *)
(* is 0 (so folding it into the last digit cannot overflow an i8), for     *)
(* w = 8 the extra digit is the carry (0 or 1) and every digit fits an i8. *)
(***************************************************************************)
EXTENDS Integers
CONSTANT
  \* @type: Int;
  WW,
  \* @type: Int;
  TOPBIT        \* 0: Scalar invariant #1 (bit 255 clear); 1: the kept counterexample (bit 255 may be set)
VARIABLES
  \* @type: Int;
  i,
  \* @type: Int;
  carry,
  \* @type: Int;
  val,
  \* @type: Int;
  rec,
  \* @type: Int;
  wgt,
  \* @type: Int;
  last
C5 == WW = 5 /\ TOPBIT = 0
C6 == WW = 6 /\ TOPBIT = 0
C7 == WW = 7 /\ TOPBIT = 0
C8 == WW = 8 /\ TOPBIT = 0
C8wide == WW = 8 /\ TOPBIT = 1
RADIX == IF WW = 5 THEN 32 ELSE IF WW = 6 THEN 64 ELSE IF WW = 7 THEN 128 ELSE 256
COUNT == IF WW = 5 THEN 52 ELSE IF WW = 6 THEN 43 ELSE IF WW = 7 THEN 37 ELSE 32
\* the top window: 1, 4, 4, 8 bits, the highest clear
TOPMAX0 == IF WW = 5 THEN 0 ELSE IF WW = 6 THEN 7 ELSE IF WW = 7 THEN 7 ELSE 127
TOPMAX == TOPMAX0 + TOPBIT * (TOPMAX0 + 1)
Init == i = 0 /\ carry = 0 /\ val = 0 /\ rec = 0 /\ wgt = 1 /\ last = 0
Step ==
  /\ i < COUNT
  /\ \E n \in 0..255 :
       /\ n < RADIX
       /\ (i = COUNT - 1 => n <= TOPMAX)
       /\ LET coef == n + carry
              c == (coef + RADIX \div 2) \div RADIX
          IN /\ carry' = c /\ rec' = rec + (coef - RADIX * c) * wgt /\ last' = coef - RADIX * c
       /\ val' = val + n * wgt
  /\ wgt' = RADIX * wgt /\ i' = i + 1
Next == Step \/ (i = COUNT /\ UNCHANGED <<i, carry, val, rec, wgt, last>>)
Inv == /\ carry \in {0, 1}
       /\ val = rec + carry * wgt
       /\ (i >= 1 => last >= 0 - RADIX \div 2 /\ last < RADIX \div 2)
       /\ (i = COUNT /\ WW < 8 => carry = 0)
       /\ (i = COUNT /\ WW = 8 => last >= -128 /\ last <= 127)
\* kept counterexample (checked with --inv=InvNoExtraDigit, w = 8): the final carry can be 1, the 33rd digit is needed
InvNoExtraDigit == i = COUNT => carry = 0
=============================================================================
