---------------------------- MODULE AP_ScalarSub52 ----------------------------
(***************************************************************************)
(* Apalache: Scalar52::sub and Scalar52::add of the 64-bit scalar backend   *)
(* (borrow chain in wrapping u64 arithmetic, then the masked add-back of l) *)
(* for ALL pairs of reduced operands in 52-bit limb form.  Post: the result *)
(* is (a - b) mod l resp. (a + b) mod l, every limb below 2^52.             *)
(***************************************************************************)
EXTENDS Integers
CONSTANT
  \* @type: Int;
  MODE
VARIABLES
  \* @type: Int;
  va,
  \* @type: Int;
  vb,
  \* @type: Int;
  vr,
  \* @type: Int;
  bad,
  \* @type: Int;
  phase
M == 4503599627370496                 \* 2^52
W == 18446744073709551616             \* 2^64
H == 9223372036854775808              \* 2^63
L0 == 671914833335277
L1 == 3916664325105025
L2 == 1367801
L3 == 0
L4 == 17592186044416
L == L0 + L1 * M + L2 * M * M + L3 * M * M * M + L4 * M * M * M * M
CSub == MODE = 0
CAdd == MODE = 1
Init == va = 0 /\ vb = 0 /\ vr = 0 /\ bad = 0 /\ phase = 0
\* x.wrapping_sub(y) in u64
WSub(x, y) == (x - y) % W
Val5(x0, x1, x2, x3, x4) == x0 + x1 * M + x2 * M * M + x3 * M * M * M + x4 * M * M * M * M
Run ==
  /\ phase = 0 /\ phase' = 1
  /\ \E a0 \in Int, a1 \in Int, a2 \in Int, a3 \in Int, a4 \in Int, b0 \in Int, b1 \in Int, b2 \in Int, b3 \in Int, b4 \in Int :
       /\ a0 >= 0 /\ a0 < M /\ a1 >= 0 /\ a1 < M /\ a2 >= 0 /\ a2 < M /\ a3 >= 0 /\ a3 < M /\ a4 >= 0 /\ a4 < M
       /\ b0 >= 0 /\ b0 < M /\ b1 >= 0 /\ b1 < M /\ b2 >= 0 /\ b2 < M /\ b3 >= 0 /\ b3 < M /\ b4 >= 0 /\ b4 < M
       /\ Val5(a0, a1, a2, a3, a4) < L /\ Val5(b0, b1, b2, b3, b4) < L
       /\ LET \* add: a + b limb-wise with carries, then sub(sum, l); sub: directly
              c0 == a0 + b0                  s0 == c0 % M
              c1 == a1 + b1 + (c0 \div M)    s1 == c1 % M
              c2 == a2 + b2 + (c1 \div M)    s2 == c2 % M
              c3 == a3 + b3 + (c2 \div M)    s3 == c3 % M
              c4 == a4 + b4 + (c3 \div M)    s4 == c4 % M
              x0 == IF MODE = 0 THEN a0 ELSE s0   y0 == IF MODE = 0 THEN b0 ELSE L0
              x1 == IF MODE = 0 THEN a1 ELSE s1   y1 == IF MODE = 0 THEN b1 ELSE L1
              x2 == IF MODE = 0 THEN a2 ELSE s2   y2 == IF MODE = 0 THEN b2 ELSE L2
              x3 == IF MODE = 0 THEN a3 ELSE s3   y3 == IF MODE = 0 THEN b3 ELSE L3
              x4 == IF MODE = 0 THEN a4 ELSE s4   y4 == IF MODE = 0 THEN b4 ELSE L4
              \* borrow chain
              w0 == WSub(x0, y0)               d0 == w0 % M
              w1 == WSub(x1, y1 + (w0 \div H))  d1 == w1 % M
              w2 == WSub(x2, y2 + (w1 \div H))  d2 == w2 % M
              w3 == WSub(x3, y3 + (w2 \div H))  d3 == w3 % M
              w4 == WSub(x4, y4 + (w3 \div H))  d4 == w4 % M
              u == w4 \div H                   \* underflow flag
              \* masked add-back of l
              e0 == d0 + u * L0                r0 == e0 % M
              e1 == (e0 \div M) + d1 + u * L1  r1 == e1 % M
              e2 == (e1 \div M) + d2 + u * L2  r2 == e2 % M
              e3 == (e2 \div M) + d3 + u * L3  r3 == e3 % M
              e4 == (e3 \div M) + d4 + u * L4  r4 == e4 % M
          IN /\ va' = Val5(a0, a1, a2, a3, a4) /\ vb' = Val5(b0, b1, b2, b3, b4)
             /\ vr' = Val5(r0, r1, r2, r3, r4)
             /\ bad' = IF c4 < W /\ e4 < W /\ (MODE = 1 => c4 \div M = 0) THEN 0 ELSE 1
Next == Run \/ (phase = 1 /\ UNCHANGED <<va, vb, vr, bad, phase>>)
Inv == phase = 1 => (/\ bad = 0 /\ vr < L
                     /\ (MODE = 0 => (vr - (va - vb)) % L = 0)
                     /\ (MODE = 1 => (vr - (va + vb)) % L = 0))
=============================================================================
