---------------------------- MODULE AP_Recode16 ----------------------------
(***************************************************************************)
(* Apalache (symbolic, mathematical integers): the radix-16 recoding of    *)
(* scalar.rs as a 64-step loop over SYMBOLIC nibbles, i.e. for ALL scalars *)
(* below 2^255 at full size (TLC covers all 16-bit scalars in MC_Recode).  *)
(* Invariant at every step: the consumed nibbles' value equals the         *)
(* recoded digits' value plus carry * 16^i; digits are in [-8, 8); after   *)
(* the last step the top digit is at most 8 because the top nibble is at   *)
(* most 7 (Scalar invariant #1).                                           *)
(***************************************************************************)
EXTENDS Integers
VARIABLES
  \* @type: Int;
  i,
  \* @type: Int;
  carry,
  \* @type: Int;
  val,
  \* @type: Int;
  rec,
  \* @type: Int;
  wgt,
  \* @type: Int;
  last
Init == i = 0 /\ carry = 0 /\ val = 0 /\ rec = 0 /\ wgt = 1 /\ last = 0
\* steps 0..62 recentre; step 63 (the top nibble, at most 7) only absorbs the carry
Step ==
  /\ i < 64
  /\ \E n \in 0..15 :
       /\ (i = 63 => n <= 7)
       /\ LET v == n + carry IN
          IF i < 63
          THEN LET c == (v + 8) \div 16 IN
               /\ carry' = c /\ rec' = rec + (v - 16 * c) * wgt /\ last' = v - 16 * c
          ELSE /\ carry' = 0 /\ rec' = rec + v * wgt /\ last' = v
       /\ val' = val + n * wgt
  /\ wgt' = 16 * wgt /\ i' = i + 1
Next == Step \/ (i = 64 /\ UNCHANGED <<i, carry, val, rec, wgt, last>>)
Inv == /\ carry \in {0, 1}
       /\ val = rec + carry * wgt
       /\ (i >= 1 /\ i <= 63 => last >= -8 /\ last <= 7)
       /\ (i = 64 => last >= 0 /\ last <= 8 /\ carry = 0 /\ val = rec)
=============================================================================
