------------------------------ MODULE AP_Sq51 ------------------------------
(***************************************************************************)
(* Apalache: one round of the u64 squaring kernel (FieldElement51::pow2k)  *)
(* with every product a_i*a_j (i <= j) replaced by a fresh integer p_ij    *)
(* only constrained by 0 <= p_ij <= (B-1)^2, B = 2^BEXP.  The coefficient  *)
(* table is the code's (a3_19 = 19 a3, a4_19 = 19 a4, the doubled cross    *)
(* terms).  Contract: the output value is congruent to the TRUE square     *)
(* sum a_i a_j 2^(51(i+j)) mod p, every 128-bit accumulator stays below    *)
(* 2^128, every carry below 2^64, 19 * a fits u64, and the output limbs    *)
(* are below 2^51 (a[1] below 2^51 + 2^13) - so the next round's           *)
(* precondition holds and pow2k(k) is covered for every k.                 *)
(***************************************************************************)
EXTENDS Integers
CONSTANT
  \* @type: Int;
  BEXP
VARIABLES
  \* @type: Int;
  lhs,
  \* @type: Int;
  rhs,
  \* @type: Int;
  bad,
  \* @type: Int;
  phase
M == 2251799813685248                \* 2^51
W64 == 18446744073709551616
W128 == 340282366920938463463374607431768211456
P == 57896044618658097711785492504343953926634992332820282019728792003956564819949
CInit54 == BEXP = 54
CInit60 == BEXP = 60
Init == lhs = 0 /\ rhs = 0 /\ bad = 0 /\ phase = 0
Bd == IF BEXP = 54 THEN 18014398509481983 * 18014398509481983 ELSE 1152921504606846975 * 1152921504606846975    \* (B-1)^2
Fits19 == IF BEXP = 54 THEN 19 * 18014398509481983 < W64 ELSE 19 * 1152921504606846975 < W64
Run ==
  /\ phase = 0 /\ phase' = 1
  /\ \E p00 \in Int, p01 \in Int, p02 \in Int, p03 \in Int, p04 \in Int, p11 \in Int, p12 \in Int, p13 \in Int, p14 \in Int, p22 \in Int, p23 \in Int, p24 \in Int, p33 \in Int, p34 \in Int, p44 \in Int :
       /\ p00 >= 0 /\ p00 <= Bd /\ p01 >= 0 /\ p01 <= Bd /\ p02 >= 0 /\ p02 <= Bd /\ p03 >= 0 /\ p03 <= Bd /\ p04 >= 0 /\ p04 <= Bd /\ p11 >= 0 /\ p11 <= Bd /\ p12 >= 0 /\ p12 <= Bd /\ p13 >= 0 /\ p13 <= Bd /\ p14 >= 0 /\ p14 <= Bd /\ p22 >= 0 /\ p22 <= Bd /\ p23 >= 0 /\ p23 <= Bd /\ p24 >= 0 /\ p24 <= Bd /\ p33 >= 0 /\ p33 <= Bd /\ p34 >= 0 /\ p34 <= Bd /\ p44 >= 0 /\ p44 <= Bd
       /\ LET c0 == 1 * p00 + 38 * p14 + 38 * p23
              c1 == 19 * p33 + 2 * p01 + 38 * p24
              c2 == 1 * p11 + 2 * p02 + 38 * p34
              c3 == 19 * p44 + 2 * p03 + 2 * p12
              c4 == 1 * p22 + 2 * p04 + 2 * p13
              d1 == c1 + (c0 \div M)
              d2 == c2 + (d1 \div M)
              d3 == c3 + (d2 \div M)
              d4 == c4 + (d3 \div M)
              carry == d4 \div M
              o0a == (c0 % M) + carry * 19
              o1 == (d1 % M) + (o0a \div M)
              o0 == o0a % M
              o2 == d2 % M  o3 == d3 % M  o4 == d4 % M
          IN /\ lhs' = o0 + o1 * M + o2 * M * M + o3 * M * M * M + o4 * M * M * M * M
             /\ rhs' = 1 * p00 * 1 + 2 * p01 * 2251799813685248 + 2 * p02 * 5070602400912917605986812821504 + 2 * p03 * 11417981541647679048466287755595961091061972992 + 2 * p04 * 25711008708143844408671393477458601640355247900524685364822016 + 1 * p11 * 5070602400912917605986812821504 + 2 * p12 * 11417981541647679048466287755595961091061972992 + 2 * p13 * 25711008708143844408671393477458601640355247900524685364822016 + 2 * p14 * 57896044618658097711785492504343953926634992332820282019728792003956564819968 + 1 * p22 * 25711008708143844408671393477458601640355247900524685364822016 + 2 * p23 * 57896044618658097711785492504343953926634992332820282019728792003956564819968 + 2 * p24 * 130370302485407109521180524058200202307293977194619920040712988758680403184853549195737432064 + 1 * p33 * 130370302485407109521180524058200202307293977194619920040712988758680403184853549195737432064 + 2 * p34 * 293567822846729153486185074598667128421960318613539983838411371441526128139326055432962374798096087878991872 + 1 * p44 * 661055968790248598951915308032771039828404682964281219284648795274405791236311345825189210439715284847591212025023358304256
             /\ bad' = IF /\ c0 < W128 /\ d1 < W128 /\ d2 < W128 /\ d3 < W128 /\ d4 < W128
                          /\ (c0 \div M) < W64 /\ (d1 \div M) < W64 /\ (d2 \div M) < W64 /\ (d3 \div M) < W64 /\ carry < W64
                          /\ o0a < W64 /\ o1 < M + 8192 /\ Fits19
                       THEN 0 ELSE 1
Next == Run \/ (phase = 1 /\ UNCHANGED <<lhs, rhs, bad, phase>>)
Inv == phase = 1 => ((lhs - rhs) % P = 0 /\ bad = 0)
\* the bound part alone (used for the kept counterexamples, where the value identity only slows the solver down)
InvBounds == phase = 1 => bad = 0
=============================================================================
