------------------------------ MODULE AP_Mul51 ------------------------------
(***************************************************************************)
(* Apalache: the u64 field multiplication kernel (FieldElement51 Mul) with *)
(* every partial product a_i*b_j replaced by a fresh integer m_ij that is  *)
(* only constrained by 0 <= m_ij <= (B-1)^2, B = 2^BEXP the documented     *)
(* pre-bound of the limbs.  Whatever holds for arbitrary m_ij holds for    *)
(* the real products.  Contract: the output value is congruent to          *)
(* sum m_ij 2^(51(i+j)) mod p, every 128-bit accumulator stays below 2^128,*)
(* every carry below 2^64, out[0] + 19*carry below 2^64, and the output    *)
(* limbs are below 2^51 (out[1] below 2^51 + 2^13).                        *)
(***************************************************************************)
EXTENDS Integers
CONSTANT
  \* @type: Int;
  BEXP
VARIABLES
  \* @type: Int;
  lhs,
  \* @type: Int;
  rhs,
  \* @type: Int;
  bad,
  \* @type: Int;
  phase
M == 2251799813685248                \* 2^51
W64 == 18446744073709551616
W128 == 340282366920938463463374607431768211456
P == 57896044618658097711785492504343953926634992332820282019728792003956564819949
CInit54 == BEXP = 54
CInit55 == BEXP = 55
Init == lhs = 0 /\ rhs = 0 /\ bad = 0 /\ phase = 0
Bd == IF BEXP = 54 THEN 18014398509481983 * 18014398509481983 ELSE 36028797018963967 * 36028797018963967    \* (B-1)^2
\* 19 * b_j is formed in u64 first (b1_19 = b[1] * 19): it must fit, 19 * (B-1) < 2^64
FitsB19 == IF BEXP = 54 THEN 19 * 18014398509481983 < W64 ELSE 19 * 36028797018963967 < W64
Run ==
  /\ phase = 0 /\ phase' = 1
  /\ \E m00 \in Int, m01 \in Int, m02 \in Int, m03 \in Int, m04 \in Int,
        m10 \in Int, m11 \in Int, m12 \in Int, m13 \in Int, m14 \in Int,
        m20 \in Int, m21 \in Int, m22 \in Int, m23 \in Int, m24 \in Int,
        m30 \in Int, m31 \in Int, m32 \in Int, m33 \in Int, m34 \in Int,
        m40 \in Int, m41 \in Int, m42 \in Int, m43 \in Int, m44 \in Int :
       /\ m00 >= 0 /\ m00 <= Bd /\ m01 >= 0 /\ m01 <= Bd /\ m02 >= 0 /\ m02 <= Bd /\ m03 >= 0 /\ m03 <= Bd /\ m04 >= 0 /\ m04 <= Bd
       /\ m10 >= 0 /\ m10 <= Bd /\ m11 >= 0 /\ m11 <= Bd /\ m12 >= 0 /\ m12 <= Bd /\ m13 >= 0 /\ m13 <= Bd /\ m14 >= 0 /\ m14 <= Bd
       /\ m20 >= 0 /\ m20 <= Bd /\ m21 >= 0 /\ m21 <= Bd /\ m22 >= 0 /\ m22 <= Bd /\ m23 >= 0 /\ m23 <= Bd /\ m24 >= 0 /\ m24 <= Bd
       /\ m30 >= 0 /\ m30 <= Bd /\ m31 >= 0 /\ m31 <= Bd /\ m32 >= 0 /\ m32 <= Bd /\ m33 >= 0 /\ m33 <= Bd /\ m34 >= 0 /\ m34 <= Bd
       /\ m40 >= 0 /\ m40 <= Bd /\ m41 >= 0 /\ m41 <= Bd /\ m42 >= 0 /\ m42 <= Bd /\ m43 >= 0 /\ m43 <= Bd /\ m44 >= 0 /\ m44 <= Bd
       /\ LET \* c_k = sum_{i+j=k} a_i b_j + 19 sum_{i+j=k+5} a_i b_j   (m(a[i], b[j]*19) = 19 m_ij)
              c0 == m00 + 19 * (m41 + m32 + m23 + m14)
              c1 == m10 + m01 + 19 * (m42 + m33 + m24)
              c2 == m20 + m11 + m02 + 19 * (m43 + m34)
              c3 == m30 + m21 + m12 + m03 + 19 * m44
              c4 == m40 + m31 + m22 + m13 + m04
              \* carry chain
              d1 == c1 + (c0 \div M)
              d2 == c2 + (d1 \div M)
              d3 == c3 + (d2 \div M)
              d4 == c4 + (d3 \div M)
              carry == d4 \div M
              o0a == (c0 % M) + carry * 19
              o1 == (d1 % M) + (o0a \div M)
              o0 == o0a % M
              o2 == d2 % M  o3 == d3 % M  o4 == d4 % M
          IN /\ lhs' = o0 + o1 * M + o2 * M * M + o3 * M * M * M + o4 * M * M * M * M
             /\ rhs' = c0 + c1 * M + c2 * M * M + c3 * M * M * M + c4 * M * M * M * M
             /\ bad' = IF /\ c0 < W128 /\ d1 < W128 /\ d2 < W128 /\ d3 < W128 /\ d4 < W128
                          /\ (c0 \div M) < W64 /\ (d1 \div M) < W64 /\ (d2 \div M) < W64 /\ (d3 \div M) < W64 /\ carry < W64
                          /\ o0a < W64 /\ o1 < M + 8192 /\ FitsB19
                       THEN 0 ELSE 1
Next == Run \/ (phase = 1 /\ UNCHANGED <<lhs, rhs, bad, phase>>)
Inv == phase = 1 => ((lhs - rhs) % P = 0 /\ bad = 0)
=============================================================================
