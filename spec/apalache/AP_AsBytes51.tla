---------------------------- MODULE AP_AsBytes51 ----------------------------
(***************************************************************************)
(* Apalache: the canonical encoding of the u64 field backend (as_bytes):   *)
(* weak reduce, q = carry of h + 19, h + 19q, carry chain, drop 2^255 q -  *)
(* for ALL five 64-bit limb vectors.  Post: the result is the value mod p, *)
(* below p, each limb below 2^51.                                          *)
(***************************************************************************)
EXTENDS Integers
VARIABLES
  \* @type: Int;
  vin,
  \* @type: Int;
  vout,
  \* @type: Int;
  bad,
  \* @type: Int;
  phase
M == 2251799813685248                \* 2^51
W == 18446744073709551616            \* 2^64
P == 57896044618658097711785492504343953926634992332820282019728792003956564819949
Init == vin = 0 /\ vout = 0 /\ bad = 0 /\ phase = 0
Run ==
  /\ phase = 0 /\ phase' = 1
  /\ \E l0 \in Int, l1 \in Int, l2 \in Int, l3 \in Int, l4 \in Int :
       /\ l0 >= 0 /\ l0 < W /\ l1 >= 0 /\ l1 < W /\ l2 >= 0 /\ l2 < W /\ l3 >= 0 /\ l3 < W /\ l4 >= 0 /\ l4 < W
       /\ LET \* reduce()
              r0 == (l0 % M) + (l4 \div M) * 19
              r1 == (l1 % M) + (l0 \div M)
              r2 == (l2 % M) + (l1 \div M)
              r3 == (l3 % M) + (l2 \div M)
              r4 == (l4 % M) + (l3 \div M)
              \* q = carry of (h + 19) through the limbs
              q0 == (r0 + 19) \div M
              q1 == (r1 + q0) \div M
              q2 == (r2 + q1) \div M
              q3 == (r3 + q2) \div M
              q == (r4 + q3) \div M
              \* h + 19 q, then carry, dropping the top carry
              a0 == r0 + 19 * q
              a1 == r1 + (a0 \div M)
              a2 == r2 + (a1 \div M)
              a3 == r3 + (a2 \div M)
              a4 == r4 + (a3 \div M)
              o0 == a0 % M  o1 == a1 % M  o2 == a2 % M  o3 == a3 % M  o4 == a4 % M
          IN /\ vin' = l0 + l1 * M + l2 * M * M + l3 * M * M * M + l4 * M * M * M * M
             /\ vout' = o0 + o1 * M + o2 * M * M + o3 * M * M * M + o4 * M * M * M * M
             /\ bad' = IF a0 < W /\ a4 < W THEN 0 ELSE 1          \* no u64 overflow on the way
Next == Run \/ (phase = 1 /\ UNCHANGED <<vin, vout, bad, phase>>)
Inv == phase = 1 => (vout < P /\ (vin - vout) % P = 0 /\ bad = 0)
=============================================================================
