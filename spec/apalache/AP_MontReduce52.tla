--------------------------- MODULE AP_MontReduce52 ---------------------------
(***************************************************************************)
(* Apalache: Scalar52::montgomery_reduce (the interleaved part1 / part2    *)
(* form with LFACTOR, l[3] = 0 skipped, final conditional subtraction of   *)
(* l) for ALL inputs.  n_i = (sum * LFACTOR) mod 2^52 is linear in the     *)
(* symbolic sum because LFACTOR and the limbs of l are constants.          *)
(* Input: nine limbs t_0..t_8 (as mul_internal produces them, each below   *)
(* 2^126) whose value T = sum t_k 2^(52k) is below l * 2^260 * BOUNDNUM/1000 *)
(* (BOUNDNUM = 1000 is the reducer's documented domain).  Contract: the    *)
(* output r is below l and r * 2^260 = T (mod l); no u128 overflow.        *)
(* BOUNDNUM = 1003 is the kept counterexample: a single conditional        *)
(* subtraction is not enough just above the bound.                         *)
(***************************************************************************)
EXTENDS Integers
CONSTANT
  \* @type: Int;
  BOUNDNUM
VARIABLES
  \* @type: Int;
  vt,
  \* @type: Int;
  vr,
  \* @type: Int;
  bad,
  \* @type: Int;
  phase
M == 4503599627370496
W128 == 340282366920938463463374607431768211456
B126 == 85070591730234615865843651857942052864
L0 == 671914833335277
L1 == 3916664325105025
L2 == 1367801
L4 == 17592186044416
LF == 1439961107955227
L == L0 + L1 * M + L2 * M * M + L4 * M * M * M * M
R == M * M * M * M * M
CIn == BOUNDNUM = 1000
COver == BOUNDNUM = 1003
Init == vt = 0 /\ vr = 0 /\ bad = 0 /\ phase = 0
Run ==
  /\ phase = 0 /\ phase' = 1
  /\ \E t0 \in Int, t1 \in Int, t2 \in Int, t3 \in Int, t4 \in Int, t5 \in Int, t6 \in Int, t7 \in Int, t8 \in Int :
       /\ t0 >= 0 /\ t0 < B126 /\ t1 >= 0 /\ t1 < B126 /\ t2 >= 0 /\ t2 < B126 /\ t3 >= 0 /\ t3 < B126 /\ t4 >= 0 /\ t4 < B126
       /\ t5 >= 0 /\ t5 < B126 /\ t6 >= 0 /\ t6 < B126 /\ t7 >= 0 /\ t7 < B126 /\ t8 >= 0 /\ t8 < B126
       /\ LET T == t0 + t1 * M + t2 * M * M + t3 * M * M * M + t4 * M * M * M * M + t5 * R + t6 * R * M + t7 * R * M * M + t8 * R * M * M * M
          IN /\ T * 1000 < L * R * BOUNDNUM
             /\ LET s0 == t0
                    n0 == ((s0 % M) * LF) % M            \* (sum as u64).wrapping_mul(LFACTOR) & mask : only the low 52 bits matter
                    c0 == (s0 + n0 * L0) \div M
                    s1 == c0 + t1 + n0 * L1
                    n1 == ((s1 % M) * LF) % M
                    c1 == (s1 + n1 * L0) \div M
                    s2 == c1 + t2 + n0 * L2 + n1 * L1
                    n2 == ((s2 % M) * LF) % M
                    c2 == (s2 + n2 * L0) \div M
                    s3 == c2 + t3 + n1 * L2 + n2 * L1
                    n3 == ((s3 % M) * LF) % M
                    c3 == (s3 + n3 * L0) \div M
                    s4 == c3 + t4 + n0 * L4 + n2 * L2 + n3 * L1
                    n4 == ((s4 % M) * LF) % M
                    c4 == (s4 + n4 * L0) \div M
                    s5 == c4 + t5 + n1 * L4 + n3 * L2 + n4 * L1
                    r0 == s5 % M
                    s6 == (s5 \div M) + t6 + n2 * L4 + n4 * L2
                    r1 == s6 % M
                    s7 == (s6 \div M) + t7 + n3 * L4
                    r2 == s7 % M
                    s8 == (s7 \div M) + t8 + n4 * L4
                    r3 == s8 % M
                    r4 == s8 \div M
                    pre == r0 + r1 * M + r2 * M * M + r3 * M * M * M + r4 * M * M * M * M
                    \* Scalar52::sub(pre, l): one conditional subtraction (proved exact for pre - l in AP_ScalarSub52 when 0 <= pre < 2l)
                    out == IF pre >= L THEN pre - L ELSE pre
                IN /\ vt' = T /\ vr' = out
                   /\ bad' = IF /\ s0 + n0 * L0 < W128 /\ s1 + n1 * L0 < W128 /\ s2 + n2 * L0 < W128 /\ s3 + n3 * L0 < W128 /\ s4 + n4 * L0 < W128
                                /\ s5 < W128 /\ s6 < W128 /\ s7 < W128 /\ s8 < W128 /\ r4 < M /\ pre < 2 * L
                                /\ (s0 + n0 * L0) % M = 0 /\ (s1 + n1 * L0) % M = 0 /\ (s4 + n4 * L0) % M = 0
                             THEN 0 ELSE 1
Next == Run \/ (phase = 1 /\ UNCHANGED <<vt, vr, bad, phase>>)
Inv == phase = 1 => (bad = 0 /\ vr < L /\ (vr * R - vt) % L = 0)
=============================================================================
