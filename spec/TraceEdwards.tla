--------------------------- MODULE TraceEdwards ---------------------------
(***************************************************************************)
(* Trace specification for Edwards points (C03) and every scalar-          *)
(* multiplication entry point (C04).  The specification keeps its OWN      *)
(* register file of affine points; each event names its operand registers, *)
(* the expected result is computed by layer D from the specification's     *)
(* registers and compared with what the implementation exposed (compressed *)
(* bytes and, through the hook, the four extended coordinates).            *)
(***************************************************************************)
EXTENDS Edwards, TraceBase

EdVal(p) == [t |-> "ed", p |-> p]
Pt(n) == regs[n].p
OptVal(r) == IF r[1] THEN EdVal(r[2]) ELSE NoneVal

\* the implementation's representation o = [c, xyzt] denotes the affine point p
PtObsOK(o, p) ==
  LET X == o.xyzt[1]  Y == o.xyzt[2]  Z == o.xyzt[3]  T == o.xyzt[4]  zi == FInv(Z) IN
  /\ o.c = Compress(p)
  /\ ~FIsZero(Z) /\ FMul(X, Y) = FMul(Z, T)
  /\ FMul(X, zi) = p[1] /\ FMul(Y, zi) = p[2]

EdCtor   == {"ed.decompress", "ed.from_slice", "ed.basepoint", "ed.identity", "ed.default", "ed.torsion"}
EdBin    == {"ed.add", "ed.sub", "ed.add_assign", "ed.sub_assign", "ed.add_owned", "ed.sub_owned", "ed.cond_select", "ed.cond_assign"}
EdUn     == {"ed.neg", "ed.neg_owned", "ed.double", "ed.mul_by_cofactor", "ed.mul_by_pow_2", "ed.copy", "ed.recode"}
EdMul    == {"ed.mul", "ed.mul_rev", "ed.mul_assign", "ed.mul_owned", "ed.mul_base", "ed.mul_clamped", "ed.mul_base_clamped",
             "ed.vartime_double_scalar_mul_basepoint", "ed.table", "ed.table_static",
             "ed.multiscalar_mul", "ed.vartime_multiscalar_mul", "ed.optional_multiscalar_mul", "ed.precomputed", "ed.sum"}
EdObs    == {"ed.compress", "ed.eq", "ed.is_identity", "ed.is_small_order", "ed.is_torsion_free", "ed.to_montgomery", "ed.compressed_identity"}
IsEdOp(op) == op \in EdCtor \cup EdBin \cup EdUn \cup EdMul \cup EdObs

PtsOf(names) == [i \in 1..Len(names) |-> Pt(names[i])]
AnyNone(names) == \E i \in 1..Len(names) : IsNone(names[i])

\* expected result of a point-valued operation: <<is_some, point>>
EdExpected(e) ==
  LET o == e.obs IN
  CASE e.op = "ed.decompress" -> Decompress(e.in[1])
    [] e.op = "ed.from_slice" -> IF Len(e.in[1]) = LEN THEN Decompress(e.in[1]) ELSE <<FALSE, Identity>>
    [] e.op = "ed.basepoint" -> <<TRUE, BasePt>>
    [] e.op \in {"ed.identity", "ed.default"} -> <<TRUE, Identity>>
    [] e.op = "ed.torsion" -> <<TRUE, Torsion(e.k)>>
    [] e.op \in {"ed.add", "ed.add_assign", "ed.add_owned"} -> <<TRUE, PtAdd(Pt(e.in[1]), Pt(e.in[2]))>>
    [] e.op \in {"ed.sub", "ed.sub_assign", "ed.sub_owned"} -> <<TRUE, PtSub(Pt(e.in[1]), Pt(e.in[2]))>>
    [] e.op \in {"ed.cond_select", "ed.cond_assign"} -> <<TRUE, IF e.c THEN Pt(e.in[2]) ELSE Pt(e.in[1])>>
    [] e.op \in {"ed.neg", "ed.neg_owned"} -> <<TRUE, PtNeg(Pt(e.in[1]))>>
    [] e.op = "ed.double" -> <<TRUE, PtDouble(Pt(e.in[1]))>>
    [] e.op \in {"ed.copy", "ed.recode"} -> <<TRUE, Pt(e.in[1])>>
    [] e.op = "ed.mul_by_cofactor" -> <<TRUE, MulByCofactor(Pt(e.in[1]))>>
    [] e.op = "ed.mul_by_pow_2" -> <<TRUE, PtPow2(Pt(e.in[1]), e.k)>>
    [] e.op = "ed.sum" -> <<TRUE, PtSum(PtsOf(e.in), 1)>>
    [] e.op \in {"ed.mul", "ed.mul_rev", "ed.mul_assign", "ed.mul_owned"} -> <<TRUE, SMul(o.s, Pt(e.in[1]))>>
    [] e.op = "ed.mul_base" -> <<TRUE, SMul(o.s, BasePt)>>
    [] e.op = "ed.mul_clamped" -> <<TRUE, SMul(Clamp(e.in[2]), Pt(e.in[1]))>>
    [] e.op = "ed.mul_base_clamped" -> <<TRUE, SMul(Clamp(e.in[1]), BasePt)>>
    [] e.op = "ed.vartime_double_scalar_mul_basepoint" -> <<TRUE, PtAdd(SMul(o.a, Pt(e.in[2])), SMul(o.b, BasePt))>>
    [] e.op = "ed.table" -> <<TRUE, SMul(IF Has(e, "clamped") /\ e.clamped THEN Clamp(o.s) ELSE o.s, Pt(e.in[1]))>>
    [] e.op = "ed.table_static" -> <<TRUE, SMul(o.s, BasePt)>>
    [] e.op \in {"ed.multiscalar_mul", "ed.vartime_multiscalar_mul"} -> <<TRUE, MSMJoint(o.ss, PtsOf(e.points))>>
    [] e.op = "ed.optional_multiscalar_mul" ->
         IF AnyNone(e.points) THEN <<FALSE, Identity>> ELSE <<TRUE, MSMJoint(o.ss, PtsOf(e.points))>>
    [] e.op = "ed.precomputed" ->
         IF e.mode = "static" THEN <<TRUE, MSMJoint(o.ss, SubSeq(PtsOf(e.static_points), 1, Len(o.ss)))>>
         ELSE IF AnyNone(e.dynamic_points) THEN <<FALSE, Identity>>
         ELSE <<TRUE, PtAdd(MSMJoint(o.ss, SubSeq(PtsOf(e.static_points), 1, Len(o.ss))), MSMJoint(o.ds, PtsOf(e.dynamic_points)))>>

\* a panicking event has obs = {}; evaluate the expectation only when the call returned
\* "misuse": a call the documentation calls an error (iterators of inconsistent lengths).  The specification leaves its
\* outcome open; it is in the request stream because C05 demands that the outcome (a value or a panic) does not depend on
\* the configuration (TraceEquiv).
EdPointStep(e) ==
  IF Has(e, "misuse") THEN Note(TRUE, e, "") /\ SetReg(e.out, NoneVal)
  ELSE IF ~NoPanic(e) THEN Note(FALSE, e, "panic") /\ SetReg(e.out, NoneVal)
  ELSE LET x == EdExpected(e)  o == e.obs IN
       /\ Note(/\ o.ok = x[1]
               /\ (x[1] => PtObsOK(o.r, x[2]))
               /\ (e.op = "ed.from_slice" => o.len_ok = (Len(e.in[1]) = LEN))
               /\ (e.op = "ed.table" => PtObsOK(o.bp, Pt(e.in[1])))
               /\ (e.op = "ed.precomputed" => o.len_ok),
               e, IF x[1] THEN Compress(x[2]) ELSE "none")
       /\ SetReg(e.out, OptVal(x))

EdObsJudge(e) ==
  LET o == e.obs IN
  IF ~NoPanic(e) THEN <<FALSE, "panic">>
  ELSE IF e.op = "ed.compress" THEN <<PtObsOK(o.r, Pt(e.in[1])), Compress(Pt(e.in[1]))>>
  ELSE IF e.op = "ed.eq" THEN
       LET x == Pt(e.in[1]) = Pt(e.in[2]) IN <<o.ok = x /\ o.ct = x /\ o.cc = x, x>>
  ELSE IF e.op = "ed.is_identity" THEN LET x == IsIdentity(Pt(e.in[1])) IN <<o.ok = x, x>>
  ELSE IF e.op = "ed.is_small_order" THEN LET x == IsSmallOrder(Pt(e.in[1])) IN <<o.ok = x, x>>
  ELSE IF e.op = "ed.is_torsion_free" THEN LET x == IsTorsionFree(Pt(e.in[1])) IN <<o.ok = x, x>>
  ELSE IF e.op = "ed.compressed_identity" THEN
       LET x == Compress(Identity) IN <<o.a = x /\ o.b = x, x>>
  ELSE IF e.op = "ed.to_montgomery" THEN
       \* u = (1+y)/(1-y), with the identity mapped to 0 (0.invert() = 0)
       LET y == Pt(e.in[1])[2]  x == FMul(FAdd(F1, y), FInv(FSub(F1, y))) IN <<o.u = x, x>>
  ELSE <<FALSE, "unknown">>

EdStep ==
  /\ l <= Len(Rec)
  /\ IsEdOp(Rec[l].op)
  /\ LET e == Rec[l] IN
       IF e.op \in EdObs
       THEN LET j == EdObsJudge(e) IN
              /\ Note(j[1], e, j[2])
              /\ IF e.op = "ed.to_montgomery" /\ Has(e, "out") /\ NoPanic(e)
                 THEN SetReg(e.out, [t |-> "mont", u |-> j[2]]) ELSE UNCHANGED regs
       ELSE EdPointStep(e)
  /\ l' = l + 1
=============================================================================
