CONSTANTS
  LEN = 32
  P <- P_full
  D <- D_full
  L <- L_full
  BASE <- BASE_full
  T8ENC <- T8_full
INIT Init
NEXT Next
INVARIANT Report
POSTCONDITION Complete
CHECK_DEADLOCK FALSE
