CONSTANTS
  LEN = 32
  P <- P_full
  D <- D_full
  L <- L_full
  BASE <- BASE_full
  T8ENC <- T8ENC_full
  SQRT_M1 <- SQRT_M1_full
  EXP_P58 <- EXP_P58_full
  EXP_QR <- EXP_QR_full
  EXP_P38 <- EXP_P38_full
  BASEPT <- BASEPT_full
  T8PT <- T8PT_full
  D2 <- D2_full
  SQRT_AD_MINUS_ONE <- SQRT_AD_MINUS_ONE_full
  INVSQRT_A_MINUS_D <- INVSQRT_A_MINUS_D_full
  ONE_MINUS_D_SQ <- ONE_MINUS_D_SQ_full
  D_MINUS_ONE_SQ <- D_MINUS_ONE_SQ_full
  MONT_A <- MONT_A_full
  APLUS2_OVER_FOUR <- APLUS2_OVER_FOUR_full
INIT Init
NEXT Next
INVARIANT Report
POSTCONDITION Complete
CHECK_DEADLOCK FALSE
