------------------------------- MODULE Bounds -------------------------------
(***************************************************************************)
(* Layer I: limb-magnitude bounds through every kernel and group formula   *)
(* (C11).  A bound is an integer FACTOR: limb_max / 2^radix, times 10^4    *)
(* (so 10000 = "exactly reduced", 2^b * 10^4 for an excess of b bits).     *)
(* Factors ADD under limb-wise addition, which is how the source comments  *)
(* derive their numbers (b < 1.6, 2.33, ...).  Each kernel has a contract: *)
(* a precondition on the factors of its operands and a post-factor.  Each  *)
(* group formula is a straight-line program over the kernels.  TLC runs    *)
(* every formula from every reachable bound-state and checks every         *)
(* precondition at every program point: all chains of operations, worst    *)
(* case "all limbs at the bound simultaneously".                           *)
(***************************************************************************)
EXTENDS Naturals, Sequences, FiniteSets, TLC

CONSTANT BACKEND,         \* "u64" | "u32"
         MUTANT           \* "none", or a deliberately broken contract used as a kept counterexample

U == 10000                                  \* factor unit
\* ---- kernel contracts (factors) ---------------------------------------------------------
\* post-factor of every reducing kernel (mul, square, pow2k, square2, reduce, sub, neg)
Red ==  CASE BACKEND = "u64"  -> 10001      \* < 2^51 + 2^13*19 : 2^(51+0.0001)
          [] BACKEND = "u32"  -> 10049      \* b < 0.007
          [] BACKEND = "avx2" -> 10049      \* b < 0.007 (reduce64 / mul); reduce alone: 0.0002
\* precondition of the multiplication kernel: <<lhs, rhs>> factor limits (exclusive)
MulPre == CASE BACKEND = "u64"  -> <<80000, 80000>>        \* limbs < 2^54 = 8 * 2^51
            [] BACKEND = "u32"  -> <<56568, 33635>>        \* b < 2.5 , b < 1.75
            [] BACKEND = "avx2" -> <<56568, 33635>>
SqPre ==  CASE BACKEND = "u64"  -> 80000
            [] BACKEND = "u32"  -> 33635                   \* 19*x fits in u32
            [] BACKEND = "avx2" -> 28284                   \* b < 1.5
\* sub / neg add 16p (serial) : the subtrahend must stay below 16p and the sum must fit the word
SubPreB == IF MUTANT = "neg_from_2p" THEN 19999       \* kept counterexample: negation / subtraction bias 2p instead of 16p
           ELSE CASE BACKEND = "u64" -> 159999 [] BACKEND = "u32" -> 159999 [] BACKEND = "avx2" -> 40000 * 4   \* Neg: b < 4.0
SubPreA == CASE BACKEND = "u64" -> 81920000 - 160000       \* a + 2^55 < 2^64
             [] BACKEND = "u32" -> 640000 - 160000         \* a + 2^30 < 2^32 (26-bit limbs)
             [] BACKEND = "avx2" -> 640000
NegLazyPre == 19986                                       \* AVX2 negate_lazy: b < 0.999
NegLazyPost == 20000                                      \* result below 2p: b < 1
WordMax == CASE BACKEND = "u64" -> 81920000 [] OTHER -> 640000       \* 2^64 / 2^51 , 2^32 / 2^26

\* ---- a tiny interpreter of straight-line programs over factors ----------------------------
\* instruction: [d |-> dst, op |-> ..., a |-> src, b |-> src]; env: name -> factor; result: <<env, violated preconditions>>
Ins(d, op, a, b) == [d |-> d, op |-> op, a |-> a, b |-> b]
Exec(prog, env0) ==
  LET RECURSIVE Go(_, _, _)
      Go(i, env, bad) ==
        IF i > Len(prog) THEN <<env, bad>>
        ELSE LET I == prog[i]  x == env[I.a]  y == env[I.b]
                 r == CASE I.op = "add" -> <<x + y, x + y < WordMax>>
                        [] I.op = "sub" -> <<IF MUTANT = "sub_without_reduce" THEN x + 16 * U ELSE Red, x < SubPreA /\ y < SubPreB>>
                        [] I.op = "neg" -> <<Red, x < SubPreB>>
                        [] I.op = "mul" -> <<Red, x < MulPre[1] /\ y < MulPre[2]>>
                        [] I.op = "sq"  -> <<Red, x < SqPre>>
                        [] I.op = "sq2" -> <<Red, x < SqPre>>
                        [] I.op = "cp"  -> <<x, TRUE>>
                        \* conditional_assign / conditional_select: either operand
                        [] I.op = "csel" -> <<IF x >= y THEN x ELSE y, TRUE>>
                        \* conditional_negate computes the negation unconditionally, then selects
                        [] I.op = "cneg" -> <<IF x >= Red THEN x ELSE Red, x < SubPreB>>
             IN Go(i + 1, (I.d :> r[1]) @@ env, IF r[2] THEN bad ELSE bad \cup {<<i, I.op, I.d, x, y>>})
  IN Go(1, env0, {})

\* ---- the serial group formulas (backend/serial/curve_models, edwards.rs, montgomery.rs) -------
\* inputs: extended point X Y Z T; projective Niels YpX YmX Z2 T2d; affine Niels ypx ymx xy2d
\* MUTANT = "niels_lazy_double" (kept counterexample, a seeded change of round 3): the cached coordinate is T*d and the formula
\* doubles the product lazily - algebraically the same, but cZ becomes a sum of four reduced values and is the right-hand
\* operand of the next multiplication (the 32-bit kernel admits b < 1.75 there)
AddProjNiels == <<
  Ins("YpX1", "add", "Y", "X"), Ins("YmX1", "sub", "Y", "X"),
  Ins("PP", "mul", "YpX1", "nYpX"), Ins("MM", "mul", "YmX1", "nYmX"),
  Ins("TT2d", "mul", "T", "nT2d") >> \o (IF MUTANT = "niels_lazy_double" THEN << Ins("TT2d", "add", "TT2d", "TT2d") >> ELSE << >>) \o <<
  Ins("ZZ", "mul", "Z", "nZ"), Ins("ZZ2", "add", "ZZ", "ZZ"),
  Ins("cX", "sub", "PP", "MM"), Ins("cY", "add", "PP", "MM"), Ins("cZ", "add", "ZZ2", "TT2d"), Ins("cT", "sub", "ZZ2", "TT2d") >>
SubProjNiels == <<
  Ins("YpX1", "add", "Y", "X"), Ins("YmX1", "sub", "Y", "X"),
  Ins("PM", "mul", "YpX1", "nYmX"), Ins("MP", "mul", "YmX1", "nYpX"),
  Ins("TT2d", "mul", "T", "nT2d"), Ins("ZZ", "mul", "Z", "nZ"), Ins("ZZ2", "add", "ZZ", "ZZ"),
  Ins("cX", "sub", "PM", "MP"), Ins("cY", "add", "PM", "MP"), Ins("cZ", "sub", "ZZ2", "TT2d"), Ins("cT", "add", "ZZ2", "TT2d") >>
AddAffNiels == <<
  Ins("YpX1", "add", "Y", "X"), Ins("YmX1", "sub", "Y", "X"),
  Ins("PP", "mul", "YpX1", "nYpX"), Ins("MM", "mul", "YmX1", "nYmX"),
  Ins("Txy2d", "mul", "T", "nT2d"), Ins("Z2", "add", "Z", "Z"),
  Ins("cX", "sub", "PP", "MM"), Ins("cY", "add", "PP", "MM"), Ins("cZ", "add", "Z2", "Txy2d"), Ins("cT", "sub", "Z2", "Txy2d") >>
SubAffNiels == <<
  Ins("YpX1", "add", "Y", "X"), Ins("YmX1", "sub", "Y", "X"),
  Ins("PM", "mul", "YpX1", "nYmX"), Ins("MP", "mul", "YmX1", "nYpX"),
  Ins("Txy2d", "mul", "T", "nT2d"), Ins("Z2", "add", "Z", "Z"),
  Ins("cX", "sub", "PM", "MP"), Ins("cY", "add", "PM", "MP"), Ins("cZ", "sub", "Z2", "Txy2d"), Ins("cT", "add", "Z2", "Txy2d") >>
DoubleProj == <<
  Ins("XX", "sq", "X", "X"), Ins("YY", "sq", "Y", "Y"), Ins("ZZ2", "sq2", "Z", "Z"),
  Ins("XpY", "add", "X", "Y"), Ins("XpYsq", "sq", "XpY", "XpY"),
  Ins("YYpXX", "add", "YY", "XX"), Ins("YYmXX", "sub", "YY", "XX"),
  Ins("cX", "sub", "XpYsq", "YYpXX"), Ins("cY", "cp", "YYpXX", "YYpXX"), Ins("cZ", "cp", "YYmXX", "YYmXX"), Ins("cT", "sub", "ZZ2", "YYmXX") >>
\* completed -> extended / projective
ToExtended == << Ins("X", "mul", "cX", "cT"), Ins("Y", "mul", "cY", "cZ"), Ins("Z", "mul", "cZ", "cT"), Ins("T", "mul", "cX", "cY") >>
ToProjective == << Ins("X", "mul", "cX", "cT"), Ins("Y", "mul", "cY", "cZ"), Ins("Z", "mul", "cZ", "cT") >>
\* extended -> Niels forms
ToProjNiels == << Ins("nYpX", "add", "Y", "X"), Ins("nYmX", "sub", "Y", "X"), Ins("nZ", "cp", "Z", "Z"), Ins("nT2d", "mul", "T", "kD2") >>
NegNiels == << Ins("tmp", "cp", "nYpX", "nYpX"), Ins("nYpX", "cp", "nYmX", "nYmX"), Ins("nYmX", "cp", "tmp", "tmp"), Ins("nT2d", "neg", "nT2d", "nT2d") >>
\* compress / to_montgomery: Z.invert (a chain of sq and mul on reduced values), then products
Compress == << Ins("zi", "sq", "Z", "Z"), Ins("zi", "mul", "zi", "Z"), Ins("x", "mul", "X", "zi"), Ins("y", "mul", "Y", "zi") >>
ToMont == << Ins("U", "add", "Z", "Y"), Ins("W", "sub", "Z", "Y"), Ins("wi", "sq", "W", "W"), Ins("wi", "mul", "wi", "W"), Ins("u", "mul", "U", "wi") >>
\* Edwards equality and is_valid style cross products
CtEq == << Ins("a", "mul", "X", "Z"), Ins("b", "mul", "Y", "Z") >>
\* Montgomery ladder step (differential_add_and_double) on (PU, PW, QU, QW) and affine difference
Ladder == <<
  Ins("t0", "add", "PU", "PW"), Ins("t1", "sub", "PU", "PW"), Ins("t2", "add", "QU", "QW"), Ins("t3", "sub", "QU", "QW"),
  Ins("t4", "sq", "t0", "t0"), Ins("t5", "sq", "t1", "t1"), Ins("t6", "sub", "t4", "t5"),
  Ins("t7", "mul", "t0", "t3"), Ins("t8", "mul", "t1", "t2"), Ins("t9", "add", "t7", "t8"), Ins("t10", "sub", "t7", "t8"),
  Ins("t11", "sq", "t9", "t9"), Ins("t12", "sq", "t10", "t10"), Ins("t13", "mul", "kA24", "t6"),
  Ins("t14", "mul", "t4", "t5"), Ins("t15", "add", "t13", "t5"), Ins("t16", "mul", "t6", "t15"), Ins("t17", "mul", "aff", "t12"),
  Ins("PU", "cp", "t14", "t14"), Ins("PW", "cp", "t16", "t16"), Ins("QU", "cp", "t11", "t11"), Ins("QW", "cp", "t17", "t17") >>

\* ---- exponent chains, square roots, encoders and maps (field.rs, edwards.rs, ristretto.rs, montgomery.rs) --------------
\* pow22501(x) -> p19, p3: x is squared and is the LEFT operand of one multiplication; everything else is reduced
Pow22501(x) == <<
  Ins("e0", "sq", x, x), Ins("e1", "sq", "e0", "e0"), Ins("e1", "sq", "e1", "e1"), Ins("e2", "mul", x, "e1"), Ins("p3", "mul", "e0", "e2"),
  Ins("e4", "sq", "p3", "p3"), Ins("e5", "mul", "e2", "e4"), Ins("e6", "sq", "e5", "e5"), Ins("e7", "mul", "e6", "e5"),
  Ins("e8", "sq", "e7", "e7"), Ins("e9", "mul", "e8", "e7"), Ins("e10", "sq", "e9", "e9"), Ins("e11", "mul", "e10", "e9"),
  Ins("e12", "sq", "e11", "e11"), Ins("e13", "mul", "e12", "e7"), Ins("e14", "sq", "e13", "e13"), Ins("e15", "mul", "e14", "e13"),
  Ins("e16", "sq", "e15", "e15"), Ins("e17", "mul", "e16", "e15"), Ins("e18", "sq", "e17", "e17"), Ins("p19", "mul", "e18", "e13") >>
Invert(x) == Pow22501(x) \o << Ins("e20", "sq", "p19", "p19"), Ins("inv", "mul", "e20", "p3") >>
PowP58(x) == Pow22501(x) \o << Ins("e20", "sq", "p19", "p19"), Ins("p58", "mul", x, "e20") >>
\* sqrt_ratio_i(u, v) -> r
SqrtRatioI(u, v) == <<
  Ins("v2", "sq", v, v), Ins("v3", "mul", "v2", v), Ins("v3s", "sq", "v3", "v3"), Ins("v7", "mul", "v3s", v),
  Ins("uv3", "mul", u, "v3"), Ins("uv7", "mul", u, "v7") >> \o PowP58("uv7") \o <<
  Ins("r", "mul", "uv3", "p58"), Ins("rs", "sq", "r", "r"), Ins("chk", "mul", v, "rs"),
  Ins("nu", "neg", u, u), Ins("nui", "mul", "nu", "kC"), Ins("rp", "mul", "kC", "r"), Ins("r", "csel", "r", "rp"), Ins("r", "cneg", "r", "r") >>
\* CompressedEdwardsY::decompress: Y from bytes (reduced) -> (X, Y, 1, XY)
EdDecompress(y) == <<
  Ins("YY", "sq", y, y), Ins("du", "sub", "YY", "kC"), Ins("yd", "mul", "YY", "kC"), Ins("dv", "add", "yd", "kC") >> \o SqrtRatioI("du", "dv") \o <<
  Ins("r", "cneg", "r", "r"), Ins("X", "cp", "r", "r"), Ins("Y", "cp", y, y), Ins("Z", "cp", "kC", "kC"), Ins("T", "mul", "X", "Y") >>
\* MontgomeryPoint::to_edwards: u from bytes
MontToEdwards == << Ins("um1", "sub", "ub", "kC"), Ins("up1", "add", "ub", "kC") >> \o Invert("up1") \o << Ins("yb", "mul", "um1", "inv") >> \o EdDecompress("yb")
\* ProjectivePoint::as_affine (end of the ladder)
MontAsAffine == Invert("PW") \o << Ins("u", "mul", "PU", "inv") >>
\* elligator_encode (r_0 from bytes)
ElligatorEncode == << Ins("r2", "sq2", "ub", "ub"), Ins("d1", "add", "kC", "r2") >> \o Invert("d1") \o <<
  Ins("ed", "mul", "kC", "inv"), Ins("dsq", "sq", "ed", "ed"), Ins("au", "mul", "kC", "ed"), Ins("in1", "add", "dsq", "au"), Ins("inner", "add", "in1", "kC"),
  Ins("eps", "mul", "ed", "inner") >> \o SqrtRatioI("eps", "kC") \o << Ins("At", "csel", "kC", "kC"), Ins("eu", "add", "ed", "At"), Ins("eu", "cneg", "eu", "eu") >>
\* RistrettoPoint::compress
RisCompress == <<
  Ins("zpy", "add", "Z", "Y"), Ins("zmy", "sub", "Z", "Y"), Ins("u1", "mul", "zpy", "zmy"), Ins("u2", "mul", "X", "Y"), Ins("u2s", "sq", "u2", "u2"),
  Ins("arg", "mul", "u1", "u2s") >> \o SqrtRatioI("kC", "arg") \o <<
  Ins("i1", "mul", "r", "u1"), Ins("i2", "mul", "r", "u2"), Ins("i2t", "mul", "i2", "T"), Ins("zinv", "mul", "i1", "i2t"),
  Ins("iX", "mul", "X", "kC"), Ins("iY", "mul", "Y", "kC"), Ins("ench", "mul", "i1", "kC"), Ins("tz", "mul", "T", "zinv"),
  Ins("rX", "csel", "X", "iY"), Ins("rY", "csel", "Y", "iX"), Ins("den", "csel", "i2", "ench"), Ins("xz", "mul", "rX", "zinv"), Ins("rY", "cneg", "rY", "rY"),
  Ins("zmy2", "sub", "Z", "rY"), Ins("s", "mul", "den", "zmy2"), Ins("s", "cneg", "s", "s") >>
\* CompressedRistretto::decompress step_2 (s from bytes) -> (x, y, 1, xy)
RisDecompress == <<
  Ins("ss", "sq", "ub", "ub"), Ins("u1", "sub", "kC", "ss"), Ins("u2", "add", "kC", "ss"), Ins("u2s", "sq", "u2", "u2"), Ins("nd", "neg", "kC", "kC"),
  Ins("u1s", "sq", "u1", "u1"), Ins("t0", "mul", "nd", "u1s"), Ins("v", "sub", "t0", "u2s"), Ins("arg", "mul", "v", "u2s") >> \o SqrtRatioI("kC", "arg") \o <<
  Ins("Dx", "mul", "r", "u2"), Ins("dxv", "mul", "Dx", "v"), Ins("Dy", "mul", "r", "dxv"), Ins("s2", "add", "ub", "ub"), Ins("x", "mul", "s2", "Dx"),
  Ins("x", "cneg", "x", "x"), Ins("y", "mul", "u1", "Dy"), Ins("t", "mul", "x", "y"),
  Ins("X", "cp", "x", "x"), Ins("Y", "cp", "y", "y"), Ins("Z", "cp", "kC", "kC"), Ins("T", "cp", "t", "t") >>
\* elligator_ristretto_flavor (r_0 from bytes) -> completed point -> extended
RisElligator == <<
  Ins("r0s", "sq", "ub", "ub"), Ins("er", "mul", "kC", "r0s"), Ins("rp1", "add", "er", "kC"), Ins("Ns", "mul", "rp1", "kC"), Ins("dr", "mul", "kC", "er"),
  Ins("cmdr", "sub", "kC", "dr"), Ins("rpd", "add", "er", "kC"), Ins("D", "mul", "cmdr", "rpd") >> \o SqrtRatioI("Ns", "D") \o <<
  Ins("sp", "mul", "r", "ub"), Ins("sp", "cneg", "sp", "sp"), Ins("es", "csel", "r", "sp"), Ins("ec", "csel", "kC", "er"), Ins("rm1", "sub", "er", "kC"),
  Ins("crm1", "mul", "ec", "rm1"), Ins("t1", "mul", "crm1", "kC"), Ins("Nt", "sub", "t1", "D"), Ins("ssq", "sq", "es", "es"), Ins("s2", "add", "es", "es"),
  Ins("cX", "mul", "s2", "D"), Ins("cZ", "mul", "Nt", "kC"), Ins("cY", "sub", "kC", "ssq"), Ins("cT", "add", "kC", "ssq") >>
\* double_and_compress_batch, one point (the batch inversion acts on reduced products)
RisBatchCompress == <<
  Ins("XX", "sq", "X", "X"), Ins("YY", "sq", "Y", "Y"), Ins("ZZ", "sq", "Z", "Z"), Ins("TT", "sq", "T", "T"), Ins("dTT", "mul", "TT", "kC"),
  Ins("y2", "add", "Y", "Y"), Ins("be", "mul", "X", "y2"), Ins("bf", "add", "ZZ", "dTT"), Ins("bg", "add", "YY", "XX"), Ins("bh", "sub", "ZZ", "dTT"),
  Ins("bg2", IF MUTANT = "batch_factor_on_g" THEN "add" ELSE "cp", "bg", "bg"),      \* kept counterexample: the factor two moved onto g = YY + XX
  Ins("eg", "mul", "be", "bg2"), Ins("fh", "mul", "bf", "bh"), Ins("efgh", "mul", "eg", "fh") >> \o Invert("efgh") \o <<
  Ins("Zinv", "mul", "eg", "inv"), Ins("Tinv", "mul", "fh", "inv"), Ins("nc1", "mul", "eg", "Zinv"), Ins("me", "neg", "be", "be"), Ins("fs", "mul", "bf", "kC"),
  Ins("e2", "csel", "be", "bg"), Ins("g2", "csel", "bg", "me"), Ins("h2", "csel", "bh", "fs"), Ins("he", "mul", "h2", "e2"), Ins("hez", "mul", "he", "Zinv"),
  Ins("g2", "cneg", "g2", "g2"), Ins("hmg", "sub", "h2", "g2"), Ins("gt", "mul", "g2", "Tinv"), Ins("mgt", "mul", "kC", "gt"), Ins("s", "mul", "hmg", "mgt"),
  Ins("s", "cneg", "s", "s") >>
\* Ristretto equality: cross products of the coordinates of two points
RisEq == << Ins("a", "mul", "X", "Y"), Ins("b", "mul", "Y", "X") >>

\* ---- the state machine over bound-states of an extended point and a cached (Niels) operand --------
Coords == {"X", "Y", "Z", "T"}
NielsF == {"nYpX", "nYmX", "nZ", "nT2d"}
LadderF == {"PU", "PW", "QU", "QW", "aff"}
\* kC: any shipped field constant (ONE, d, sqrt(-1), A, the Ristretto constants ...): reduced; ub: a value from from_bytes
Consts == [kD2 |-> U, kA24 |-> U, kC |-> U, ub |-> U]
VARIABLES env,       \* current factors of all live values
          viol       \* violated preconditions found so far
vars == <<env, viol>>
\* the type invariant at the boundary: every coordinate a public constructor can produce is weakly reduced;
\* shipped table entries (affine Niels) may be one bit above the radix (checked by C12): 2 * U
Init == /\ env = [n \in Coords \cup LadderF |-> U] @@ [n \in NielsF |-> 2 * U] @@ Consts
        /\ viol = {}
\* temporaries of a formula do not outlive it: only the point, the cached operand, the ladder state and the constants persist
Run(prog) == LET r == Exec(prog, env) IN env' = [n \in DOMAIN env |-> r[1][n]] /\ viol' = viol \cup r[2]
Next == \/ Run(ToProjNiels) \/ Run(NegNiels)
        \/ Run(AddProjNiels \o ToExtended) \/ Run(SubProjNiels \o ToExtended)
        \/ Run(AddAffNiels \o ToExtended) \/ Run(SubAffNiels \o ToExtended)
        \/ Run(AddProjNiels \o ToProjective) \/ Run(AddAffNiels \o ToProjective)
        \/ Run(DoubleProj \o ToExtended) \/ Run(DoubleProj \o ToProjective)
        \/ Run(Compress) \/ Run(ToMont) \/ Run(CtEq) \/ Run(Ladder) \/ Run(Ladder \o MontAsAffine)
        \/ Run(EdDecompress("ub")) \/ Run(MontToEdwards) \/ Run(ElligatorEncode)
        \/ Run(RisCompress) \/ Run(RisDecompress) \/ Run(RisElligator \o ToExtended) \/ Run(RisBatchCompress) \/ Run(RisEq)
        \/ Run(Invert("Z")) \/ Run(SqrtRatioI("X", "Y"))
\* C11: every kernel precondition and side condition holds at every program point, along every chain of formulas
NoViolation == viol = {}
\* the boundary type invariant is inductive: coordinates stay (weakly) reduced
TypeInv == \A c \in Coords : env[c] <= Red
=============================================================================
