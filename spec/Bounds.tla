------------------------------- MODULE Bounds -------------------------------
(***************************************************************************)
(* Layer I: limb-magnitude bounds through every kernel and group formula   *)
(* (C11).  A bound is an integer FACTOR: limb_max / 2^radix, times 10^4    *)
(* (so 10000 = "exactly reduced", 2^b * 10^4 for an excess of b bits).     *)
(* Factors ADD under limb-wise addition, which is how the source comments  *)
(* derive their numbers (b < 1.6, 2.33, ...).  Each kernel has a contract: *)
(* a precondition on the factors of its operands and a post-factor.  Each  *)
(* group formula is a straight-line program over the kernels.  TLC runs    *)
(* every formula from every reachable bound-state and checks every         *)
(* precondition at every program point: all chains of operations, worst    *)
(* case "all limbs at the bound simultaneously".                           *)
(***************************************************************************)
EXTENDS Naturals, Sequences, FiniteSets, TLC

CONSTANT BACKEND,         \* "u64" | "u32"
         MUTANT           \* "none", or a deliberately broken contract used as a kept counterexample

U == 10000                                  \* factor unit
\* ---- kernel contracts (factors) ---------------------------------------------------------
\* post-factor of every reducing kernel (mul, square, pow2k, square2, reduce, sub, neg)
Red ==  CASE BACKEND = "u64"  -> 10001      \* < 2^51 + 2^13*19 : 2^(51+0.0001)
          [] BACKEND = "u32"  -> 10049      \* b < 0.007
          [] BACKEND = "avx2" -> 10049      \* b < 0.007 (reduce64 / mul); reduce alone: 0.0002
\* precondition of the multiplication kernel: <<lhs, rhs>> factor limits (exclusive)
MulPre == CASE BACKEND = "u64"  -> <<80000, 80000>>        \* limbs < 2^54 = 8 * 2^51
            [] BACKEND = "u32"  -> <<56568, 33635>>        \* b < 2.5 , b < 1.75
            [] BACKEND = "avx2" -> <<56568, 33635>>
SqPre ==  CASE BACKEND = "u64"  -> 80000
            [] BACKEND = "u32"  -> 33635                   \* 19*x fits in u32
            [] BACKEND = "avx2" -> 28284                   \* b < 1.5
\* sub / neg add 16p (serial) : the subtrahend must stay below 16p and the sum must fit the word
SubPreB == CASE BACKEND = "u64" -> 159999 [] BACKEND = "u32" -> 159999 [] BACKEND = "avx2" -> 40000 * 4   \* Neg: b < 4.0
SubPreA == CASE BACKEND = "u64" -> 81920000 - 160000       \* a + 2^55 < 2^64
             [] BACKEND = "u32" -> 640000 - 160000         \* a + 2^30 < 2^32 (26-bit limbs)
             [] BACKEND = "avx2" -> 640000
NegLazyPre == 19986                                       \* AVX2 negate_lazy: b < 0.999
NegLazyPost == 20000                                      \* result below 2p: b < 1
WordMax == CASE BACKEND = "u64" -> 81920000 [] OTHER -> 640000       \* 2^64 / 2^51 , 2^32 / 2^26

\* ---- a tiny interpreter of straight-line programs over factors ----------------------------
\* instruction: [d |-> dst, op |-> ..., a |-> src, b |-> src]; env: name -> factor; result: <<env, violated preconditions>>
Ins(d, op, a, b) == [d |-> d, op |-> op, a |-> a, b |-> b]
Exec(prog, env0) ==
  LET RECURSIVE Go(_, _, _)
      Go(i, env, bad) ==
        IF i > Len(prog) THEN <<env, bad>>
        ELSE LET I == prog[i]  x == env[I.a]  y == env[I.b]
                 r == CASE I.op = "add" -> <<x + y, x + y < WordMax>>
                        [] I.op = "sub" -> <<IF MUTANT = "sub_without_reduce" THEN x + 16 * U ELSE Red, x < SubPreA /\ y < SubPreB>>
                        [] I.op = "neg" -> <<Red, x < SubPreB>>
                        [] I.op = "mul" -> <<Red, x < MulPre[1] /\ y < MulPre[2]>>
                        [] I.op = "sq"  -> <<Red, x < SqPre>>
                        [] I.op = "sq2" -> <<Red, x < SqPre>>
                        [] I.op = "cp"  -> <<x, TRUE>>
             IN Go(i + 1, (I.d :> r[1]) @@ env, IF r[2] THEN bad ELSE bad \cup {<<i, I.op, I.d, x, y>>})
  IN Go(1, env0, {})

\* ---- the serial group formulas (backend/serial/curve_models, edwards.rs, montgomery.rs) -------
\* inputs: extended point X Y Z T; projective Niels YpX YmX Z2 T2d; affine Niels ypx ymx xy2d
AddProjNiels == <<
  Ins("YpX1", "add", "Y", "X"), Ins("YmX1", "sub", "Y", "X"),
  Ins("PP", "mul", "YpX1", "nYpX"), Ins("MM", "mul", "YmX1", "nYmX"),
  Ins("TT2d", "mul", "T", "nT2d"), Ins("ZZ", "mul", "Z", "nZ"), Ins("ZZ2", "add", "ZZ", "ZZ"),
  Ins("cX", "sub", "PP", "MM"), Ins("cY", "add", "PP", "MM"), Ins("cZ", "add", "ZZ2", "TT2d"), Ins("cT", "sub", "ZZ2", "TT2d") >>
SubProjNiels == <<
  Ins("YpX1", "add", "Y", "X"), Ins("YmX1", "sub", "Y", "X"),
  Ins("PM", "mul", "YpX1", "nYmX"), Ins("MP", "mul", "YmX1", "nYpX"),
  Ins("TT2d", "mul", "T", "nT2d"), Ins("ZZ", "mul", "Z", "nZ"), Ins("ZZ2", "add", "ZZ", "ZZ"),
  Ins("cX", "sub", "PM", "MP"), Ins("cY", "add", "PM", "MP"), Ins("cZ", "sub", "ZZ2", "TT2d"), Ins("cT", "add", "ZZ2", "TT2d") >>
AddAffNiels == <<
  Ins("YpX1", "add", "Y", "X"), Ins("YmX1", "sub", "Y", "X"),
  Ins("PP", "mul", "YpX1", "nYpX"), Ins("MM", "mul", "YmX1", "nYmX"),
  Ins("Txy2d", "mul", "T", "nT2d"), Ins("Z2", "add", "Z", "Z"),
  Ins("cX", "sub", "PP", "MM"), Ins("cY", "add", "PP", "MM"), Ins("cZ", "add", "Z2", "Txy2d"), Ins("cT", "sub", "Z2", "Txy2d") >>
SubAffNiels == <<
  Ins("YpX1", "add", "Y", "X"), Ins("YmX1", "sub", "Y", "X"),
  Ins("PM", "mul", "YpX1", "nYmX"), Ins("MP", "mul", "YmX1", "nYpX"),
  Ins("Txy2d", "mul", "T", "nT2d"), Ins("Z2", "add", "Z", "Z"),
  Ins("cX", "sub", "PM", "MP"), Ins("cY", "add", "PM", "MP"), Ins("cZ", "sub", "Z2", "Txy2d"), Ins("cT", "add", "Z2", "Txy2d") >>
DoubleProj == <<
  Ins("XX", "sq", "X", "X"), Ins("YY", "sq", "Y", "Y"), Ins("ZZ2", "sq2", "Z", "Z"),
  Ins("XpY", "add", "X", "Y"), Ins("XpYsq", "sq", "XpY", "XpY"),
  Ins("YYpXX", "add", "YY", "XX"), Ins("YYmXX", "sub", "YY", "XX"),
  Ins("cX", "sub", "XpYsq", "YYpXX"), Ins("cY", "cp", "YYpXX", "YYpXX"), Ins("cZ", "cp", "YYmXX", "YYmXX"), Ins("cT", "sub", "ZZ2", "YYmXX") >>
\* completed -> extended / projective
ToExtended == << Ins("X", "mul", "cX", "cT"), Ins("Y", "mul", "cY", "cZ"), Ins("Z", "mul", "cZ", "cT"), Ins("T", "mul", "cX", "cY") >>
ToProjective == << Ins("X", "mul", "cX", "cT"), Ins("Y", "mul", "cY", "cZ"), Ins("Z", "mul", "cZ", "cT") >>
\* extended -> Niels forms
ToProjNiels == << Ins("nYpX", "add", "Y", "X"), Ins("nYmX", "sub", "Y", "X"), Ins("nZ", "cp", "Z", "Z"), Ins("nT2d", "mul", "T", "kD2") >>
NegNiels == << Ins("tmp", "cp", "nYpX", "nYpX"), Ins("nYpX", "cp", "nYmX", "nYmX"), Ins("nYmX", "cp", "tmp", "tmp"), Ins("nT2d", "neg", "nT2d", "nT2d") >>
\* compress / to_montgomery: Z.invert (a chain of sq and mul on reduced values), then products
Compress == << Ins("zi", "sq", "Z", "Z"), Ins("zi", "mul", "zi", "Z"), Ins("x", "mul", "X", "zi"), Ins("y", "mul", "Y", "zi") >>
ToMont == << Ins("U", "add", "Z", "Y"), Ins("W", "sub", "Z", "Y"), Ins("wi", "sq", "W", "W"), Ins("wi", "mul", "wi", "W"), Ins("u", "mul", "U", "wi") >>
\* Edwards equality and is_valid style cross products
CtEq == << Ins("a", "mul", "X", "Z"), Ins("b", "mul", "Y", "Z") >>
\* Montgomery ladder step (differential_add_and_double) on (PU, PW, QU, QW) and affine difference
Ladder == <<
  Ins("t0", "add", "PU", "PW"), Ins("t1", "sub", "PU", "PW"), Ins("t2", "add", "QU", "QW"), Ins("t3", "sub", "QU", "QW"),
  Ins("t4", "sq", "t0", "t0"), Ins("t5", "sq", "t1", "t1"), Ins("t6", "sub", "t4", "t5"),
  Ins("t7", "mul", "t0", "t3"), Ins("t8", "mul", "t1", "t2"), Ins("t9", "add", "t7", "t8"), Ins("t10", "sub", "t7", "t8"),
  Ins("t11", "sq", "t9", "t9"), Ins("t12", "sq", "t10", "t10"), Ins("t13", "mul", "kA24", "t6"),
  Ins("t14", "mul", "t4", "t5"), Ins("t15", "add", "t13", "t5"), Ins("t16", "mul", "t6", "t15"), Ins("t17", "mul", "aff", "t12"),
  Ins("PU", "cp", "t14", "t14"), Ins("PW", "cp", "t16", "t16"), Ins("QU", "cp", "t11", "t11"), Ins("QW", "cp", "t17", "t17") >>

\* ---- the state machine over bound-states of an extended point and a cached (Niels) operand --------
Coords == {"X", "Y", "Z", "T"}
NielsF == {"nYpX", "nYmX", "nZ", "nT2d"}
LadderF == {"PU", "PW", "QU", "QW", "aff"}
Consts == [kD2 |-> U, kA24 |-> U]
VARIABLES env,       \* current factors of all live values
          viol       \* violated preconditions found so far
vars == <<env, viol>>
\* the type invariant at the boundary: every coordinate a public constructor can produce is weakly reduced;
\* shipped table entries (affine Niels) may be one bit above the radix (checked by C12): 2 * U
Init == /\ env = [n \in Coords \cup LadderF |-> U] @@ [n \in NielsF |-> 2 * U] @@ Consts
        /\ viol = {}
Run(prog) == LET r == Exec(prog, env) IN env' = r[1] /\ viol' = viol \cup r[2]
Next == \/ Run(ToProjNiels) \/ Run(NegNiels)
        \/ Run(AddProjNiels \o ToExtended) \/ Run(SubProjNiels \o ToExtended)
        \/ Run(AddAffNiels \o ToExtended) \/ Run(SubAffNiels \o ToExtended)
        \/ Run(AddProjNiels \o ToProjective) \/ Run(AddAffNiels \o ToProjective)
        \/ Run(DoubleProj \o ToExtended) \/ Run(DoubleProj \o ToProjective)
        \/ Run(Compress) \/ Run(ToMont) \/ Run(CtEq) \/ Run(Ladder)
\* C11: every kernel precondition and side condition holds at every program point, along every chain of formulas
NoViolation == viol = {}
\* the boundary type invariant is inductive: coordinates stay (weakly) reduced
TypeInv == \A c \in Coords : env[c] <= Red
=============================================================================
