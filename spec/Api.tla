------------------------------- MODULE Api -------------------------------
(***************************************************************************)
(* Layer S: the public Edwards API as a state machine over a small         *)
(* register file.  Each register holds an extended-coordinate              *)
(* representation computed by the layer-A formulas (what the code holds)   *)
(* and, as ghost state, the group element it is supposed to denote, in     *)
(* coordinates (k, t) meaning k*B + t*T8.  The invariant says the          *)
(* representation invariant (Z # 0, on curve, XY = ZT) and the abstraction *)
(* function are preserved by every operation along every history.          *)
(* hist records the calls, so that behaviours can be replayed on the real  *)
(* code at full size (spec -> code).                                       *)
(***************************************************************************)
EXTENDS EdwardsAlg, TLC, Json

CONSTANT NR, MAXSTEPS
VARIABLES reg, gh, hist, steps

Lp == Val(L)
Aff(g) == PtAdd(SMul(BN(g[1], 1), BasePt), Torsion(g[2]))
AffTable == [g \in (0..(Lp - 1)) \X (0..7) |-> Aff(g)]
GAdd(g, h) == <<(g[1] + h[1]) % Lp, (g[2] + h[2]) % 8>>
GNeg(g) == <<(Lp - g[1]) % Lp, (8 - g[2]) % 8>>
GDbl(g) == GAdd(g, g)
RECURSIVE GPow2(_, _)
GPow2(g, k) == IF k = 0 THEN g ELSE GPow2(GDbl(g), k - 1)

Regs == 1..NR
Init == /\ gh \in [Regs -> (0..(Lp - 1)) \X (0..7)]
        /\ reg = [i \in Regs |-> FromAffine(AffTable[gh[i]])]
        /\ hist = <<[op |-> "init", pts |-> [i \in Regs |-> gh[i]]]>>
        /\ steps = 0

\* simulation: the last register starts as the identity (keeps the number of initial states small)
SimInit == /\ gh \in {g \in [Regs -> (0..(Lp - 1)) \X (0..7)] : g[NR] = <<0, 0>>}
           /\ reg = [i \in Regs |-> FromAffine(AffTable[gh[i]])]
           /\ hist = <<[op |-> "init", pts |-> [i \in Regs |-> gh[i]]]>>
           /\ steps = 0

Put(c, e, g, h) == /\ reg' = [reg EXCEPT ![c] = e]
                   /\ gh' = [gh EXCEPT ![c] = g]
                   /\ hist' = Append(hist, h)
                   /\ steps' = steps + 1
Add(a, b, c) == Put(c, EAdd(reg[a], reg[b]), GAdd(gh[a], gh[b]), [op |-> "add", a |-> a, b |-> b, c |-> c])
Sub(a, b, c) == Put(c, ESub(reg[a], reg[b]), GAdd(gh[a], GNeg(gh[b])), [op |-> "sub", a |-> a, b |-> b, c |-> c])
Neg(a, c)    == Put(c, ENeg(reg[a]), GNeg(gh[a]), [op |-> "neg", a |-> a, c |-> c])
Double(a, c) == Put(c, EDouble(reg[a]), GDbl(gh[a]), [op |-> "double", a |-> a, c |-> c])
MulCof(a, c) == Put(c, EMulByPow2(reg[a], 3), GPow2(gh[a], 3), [op |-> "mul_by_cofactor", a |-> a, c |-> c])
\* scalar multiplication by a scalar class (0, 1, 2, 3, l'-1, l', l'+1), computed on the REPRESENTATIONS by double-and-add over
\* the layer-A formulas (so exceptional cases of the formulas - doubling via add, adding the identity, P + (-P) - occur
\* inside histories); the replay maps the class to the full-size scalar of the same class (l' -> l)
RECURSIVE EMulSmall(_, _)
EMulSmall(e, n) == IF n = 0 THEN ExtIdentity
                   ELSE LET h == EMulSmall(e, n \div 2)  d == EAdd(h, h) IN IF n % 2 = 1 THEN EAdd(d, e) ELSE d
ScalarClasses == {0, 1, 2, 3, Lp - 1, Lp, Lp + 1}
GMul(g, n) == <<(g[1] * n) % Lp, (g[2] * n) % 8>>
Mul(a, n, c) == Put(c, EMulSmall(reg[a], n), GMul(gh[a], n), [op |-> "mul", a |-> a, n |-> n, lp |-> Lp, c |-> c])
\* a round trip through the wire format: the same element in a fresh representation (Z = 1)
Recode(a, c) == LET d == EDecompress(ECompress(reg[a])) IN
                Put(c, d[2], gh[a], [op |-> "recode", a |-> a, c |-> c])
Select(a, b, f, c) == Put(c, IF f THEN reg[b] ELSE reg[a], IF f THEN gh[b] ELSE gh[a], [op |-> "select", a |-> a, b |-> b, f |-> f, c |-> c])
\* observations do not change the registers; they are recorded for the replay
Eq(a, b)  == /\ hist' = Append(hist, [op |-> "eq", a |-> a, b |-> b]) /\ steps' = steps + 1 /\ UNCHANGED <<reg, gh>>
Pred(a)   == /\ hist' = Append(hist, [op |-> "pred", a |-> a]) /\ steps' = steps + 1 /\ UNCHANGED <<reg, gh>>

Next == /\ steps < MAXSTEPS
        /\ \/ \E a, b, c \in Regs : Add(a, b, c) \/ Sub(a, b, c)
           \/ \E a, c \in Regs : Neg(a, c) \/ Double(a, c) \/ MulCof(a, c) \/ Recode(a, c)
           \/ \E a, c \in Regs, n \in ScalarClasses : Mul(a, n, c)
           \/ \E a, b, c \in Regs, f \in BOOLEAN : Select(a, b, f, c)
           \/ \E a, b \in Regs : Eq(a, b)
           \/ \E a \in Regs : Pred(a)

RepInv == \A i \in Regs :
            /\ ExtValid(reg[i])
            /\ ToAffine(reg[i]) = AffTable[gh[i]]
            /\ ECompress(reg[i]) = Compress(AffTable[gh[i]])
EqInv == \A i, j \in Regs : EEq(reg[i], reg[j]) = (gh[i] = gh[j])
PredInv == \A i \in Regs :
            /\ IsSmallOrder(ToAffine(reg[i])) = (gh[i][1] = 0)
            /\ IsTorsionFree(ToAffine(reg[i])) = (gh[i][2] = 0)
View == <<reg, gh, steps>>
\* simulation mode: print the behaviour once it has MAXSTEPS calls
Emit == (steps = MAXSTEPS) => PrintT(<<"HIST", ToJson(hist)>>)
=============================================================================
