import tlc2.value.impl.*;
import java.math.BigInteger;

/** TLC module override for BigNat.tla: the same functions over java.math.BigInteger. */
public class BigNat {
  static BigInteger val(Value v) {
    TupleValue t = (TupleValue) v.toTuple();
    int n = t.size();
    byte[] be = new byte[n + 1];
    for (int i = 0; i < n; i++) be[n - i] = (byte) ((IntValue) t.elems[i]).val;
    return new BigInteger(be);
  }
  static int ival(Value v) { return ((IntValue) v).val; }
  static Value bytes(BigInteger n, int len) {
    Value[] e = new Value[len];
    byte[] be = n.toByteArray();
    for (int i = 0; i < len; i++) {
      int idx = be.length - 1 - i;
      e[i] = IntValue.gen(idx >= 0 ? (be[idx] & 0xff) : 0);
    }
    return new TupleValue(e);
  }
  static int len(Value m) { return ((TupleValue) m.toTuple()).size(); }
  static BigInteger trunc(BigInteger n, int len) {
    return n.mod(BigInteger.ONE.shiftLeft(8 * len));
  }

  public static Value BAdd(Value a, Value b, Value l) { int n = ival(l); return bytes(trunc(val(a).add(val(b)), n), n); }
  public static Value BMul(Value a, Value b, Value l) { int n = ival(l); return bytes(trunc(val(a).multiply(val(b)), n), n); }
  public static Value BSub(Value a, Value b, Value l) { int n = ival(l); return bytes(trunc(val(a).subtract(val(b)), n), n); }
  public static Value BDiv(Value a, Value b, Value l) { int n = ival(l); return bytes(trunc(val(a).divide(val(b)), n), n); }
  public static Value BMod(Value a, Value m) { return bytes(val(a).mod(val(m)), len(m)); }
  public static Value BShl(Value a, Value k, Value l) { int n = ival(l); return bytes(trunc(val(a).shiftLeft(ival(k)), n), n); }
  public static Value BShr(Value a, Value k, Value l) { int n = ival(l); return bytes(trunc(val(a).shiftRight(ival(k)), n), n); }
  public static Value Resize(Value a, Value l) { int n = ival(l); return bytes(trunc(val(a), n), n); }
  public static Value BPow2(Value k, Value l) { int n = ival(l); return bytes(trunc(BigInteger.ONE.shiftLeft(ival(k)), n), n); }

  public static Value BLt(Value a, Value b) { return val(a).compareTo(val(b)) < 0 ? BoolValue.ValTrue : BoolValue.ValFalse; }
  public static Value BLe(Value a, Value b) { return val(a).compareTo(val(b)) <= 0 ? BoolValue.ValTrue : BoolValue.ValFalse; }
  public static Value BEq(Value a, Value b) { return val(a).equals(val(b)) ? BoolValue.ValTrue : BoolValue.ValFalse; }
  public static Value BitLen(Value a) { return IntValue.gen(val(a).bitLength()); }

  public static Value AddMod(Value a, Value b, Value m) { return bytes(val(a).add(val(b)).mod(val(m)), len(m)); }
  public static Value SubMod(Value a, Value b, Value m) { return bytes(val(a).subtract(val(b)).mod(val(m)), len(m)); }
  public static Value MulMod(Value a, Value b, Value m) { return bytes(val(a).multiply(val(b)).mod(val(m)), len(m)); }
  public static Value NegMod(Value a, Value m) { return bytes(val(a).negate().mod(val(m)), len(m)); }
  public static Value PowMod(Value a, Value e, Value m) { return bytes(val(a).modPow(val(e), val(m)), len(m)); }
  public static Value InvMod(Value a, Value m) {
    BigInteger mm = val(m), aa = val(a).mod(mm);
    if (aa.signum() == 0) return bytes(BigInteger.ZERO, len(m));
    return bytes(aa.modInverse(mm), len(m));
  }
}
