CONSTANTS
  LEN = 1
  P <- P_101
  D <- D_101
  L <- L_101
  BASE <- BASE_101
  T8ENC <- T8ENC_101
  SQRT_M1 <- SQRT_M1_101
  EXP_P58 <- EXP_P58_101
  EXP_QR <- EXP_QR_101
  EXP_P38 <- EXP_P38_101
  BASEPT <- BASEPT_101
  T8PT <- T8PT_101
  D2 <- D2_101
  SQRT_AD_MINUS_ONE <- SQRT_AD_MINUS_ONE_101
  INVSQRT_A_MINUS_D <- INVSQRT_A_MINUS_D_101
  ONE_MINUS_D_SQ <- ONE_MINUS_D_SQ_101
  D_MINUS_ONE_SQ <- D_MINUS_ONE_SQ_101
  MONT_A <- MONT_A_101
  APLUS2_OVER_FOUR <- APLUS2_OVER_FOUR_101
  MAXSTEPS = 4
  SECRETS <- SecretsSmall
  INJECT <- InjectClasses
INIT Init
NEXT Next
INVARIANT Inv
INVARIANT Agreement
INVARIANT AliasFree
INVARIANT DeadOK
VIEW View
CHECK_DEADLOCK FALSE
