import tlc2.value.impl.*;
import java.security.MessageDigest;

public class Hash {
  public static Value SHA512(Value m) throws Exception {
    TupleValue t = (TupleValue) m.toTuple();
    byte[] in = new byte[t.size()];
    for (int i = 0; i < in.length; i++) in[i] = (byte) ((IntValue) t.elems[i]).val;
    byte[] out = MessageDigest.getInstance("SHA-512").digest(in);
    Value[] e = new Value[out.length];
    for (int i = 0; i < out.length; i++) e[i] = IntValue.gen(out[i] & 0xff);
    return new TupleValue(e);
  }
}
