---------------------------- MODULE TraceField ----------------------------
(***************************************************************************)
(* Trace specification for the field layer (C01): every event carries the  *)
(* raw input limbs and the raw output limbs + canonical output bytes.  The *)
(* expected value is computed from the VALUE of the input limbs under the  *)
(* backend's radix schedule with the definitions of Field.tla.             *)
(***************************************************************************)
EXTENDS Field, TraceBase

Shifts51  == <<0, 51, 102, 153, 204>>
Shifts255 == <<0, 26, 51, 77, 102, 128, 153, 179, 204, 230>>
LV(limbs) == FromLimbs(limbs, IF Len(limbs) = 5 THEN Shifts51 ELSE Shifts255)

\* the observed result r = [limbs, bytes] denotes exactly value v, canonically encoded
ResIs(r, v) == r.bytes = v /\ LV(r.limbs) = v

FieldOps1 == {"fe.neg", "fe.negate", "fe.square", "fe.square2", "fe.invert", "fe.pow_p58",
              "fe.pow2k", "fe.reencode", "fe.cond_negate"}
FieldOps2 == {"fe.add", "fe.sub", "fe.mul", "fe.add_assign", "fe.sub_assign", "fe.mul_assign",
              "fe.cond_select", "fe.cond_assign"}
FieldOpsX == {"fe.from_limbs", "fe.from_bytes", "fe.pow22501", "fe.invsqrt", "fe.sqrt_ratio_i",
              "fe.batch_invert", "fe.is_negative", "fe.is_zero", "fe.ct_eq", "fe.cond_swap"}
IsFieldOp(op) == op \in FieldOps1 \cup FieldOps2 \cup FieldOpsX

Exp1(e, a) ==
  CASE e.op \in {"fe.neg", "fe.negate"} -> FNeg(a)
    [] e.op = "fe.square"   -> FSq(a)
    [] e.op = "fe.square2"  -> FSq2(a)
    [] e.op = "fe.invert"   -> FInv(a)
    [] e.op = "fe.pow_p58"  -> FPow(a, EXP_P58)
    [] e.op = "fe.pow2k"    -> FPow(a, BPow2(e.k, LEN + 1))
    [] e.op = "fe.reencode" -> a
    [] e.op = "fe.cond_negate" -> FCondNeg(a, e.c)
Exp2(e, a, b) ==
  CASE e.op \in {"fe.add", "fe.add_assign"} -> FAdd(a, b)
    [] e.op \in {"fe.sub", "fe.sub_assign"} -> FSub(a, b)
    [] e.op \in {"fe.mul", "fe.mul_assign"} -> FMul(a, b)
    [] e.op \in {"fe.cond_select", "fe.cond_assign"} -> FSelect(a, b, e.c)

\* <<ok, expected-for-the-report>>
FieldJudge(e) ==
  LET o == e.obs IN
  IF ~NoPanic(e) THEN <<FALSE, "panic">>
  ELSE IF e.op \in FieldOps1 THEN
       LET x == Exp1(e, LV(o.a)) IN <<ResIs(o.r, x), x>>
  ELSE IF e.op \in FieldOps2 THEN
       LET x == Exp2(e, LV(o.a), LV(o.b)) IN <<ResIs(o.r, x), x>>
  ELSE IF e.op = "fe.from_limbs" THEN
       LET x == LV(e.in[1]) IN <<ResIs(o.r, x), x>>
  ELSE IF e.op = "fe.from_bytes" THEN
       LET x == FromBytes(e.in[1]) IN <<ResIs(o.r, x), x>>
  ELSE IF e.op = "fe.pow22501" THEN
       LET a == LV(o.a)
           x == FPow(a, BSub(BPow2(250, LEN), One(LEN), LEN))
           y == FPow(a, BN(11, LEN))
       IN <<ResIs(o.r, x) /\ ResIs(o.s, y), <<x, y>>>>
  ELSE IF e.op = "fe.invsqrt" THEN
       LET x == InvSqrt(LV(o.a)) IN <<o.ok = x[1] /\ ResIs(o.r, x[2]), x>>
  ELSE IF e.op = "fe.sqrt_ratio_i" THEN
       LET x == SqrtRatio(LV(o.a), LV(o.b)) IN <<o.ok = x[1] /\ ResIs(o.r, x[2]), x>>
  ELSE IF e.op = "fe.batch_invert" THEN
       LET x == [i \in 1..Len(o.as) |-> FInv(LV(o.as[i]))]
       IN <<Len(o.rs) = Len(x) /\ \A i \in 1..Len(x) : ResIs(o.rs[i], x[i]), x>>
  ELSE IF e.op = "fe.is_negative" THEN
       LET x == FIsNeg(LV(o.a)) IN <<o.ok = x, x>>
  ELSE IF e.op = "fe.is_zero" THEN
       LET x == FIsZero(LV(o.a)) IN <<o.ok = x, x>>
  ELSE IF e.op = "fe.ct_eq" THEN
       LET x == LV(o.a) = LV(o.b) IN <<o.ok = x, x>>
  ELSE IF e.op = "fe.cond_swap" THEN
       LET a == LV(o.a)  b == LV(o.b)
           x == IF e.c THEN <<b, a>> ELSE <<a, b>>
       IN <<ResIs(o.r, x[1]) /\ ResIs(o.s, x[2]), x>>
  ELSE <<FALSE, "unknown field op">>

FieldStep ==
  /\ l <= Len(Rec)
  /\ IsFieldOp(Rec[l].op)
  /\ LET e == Rec[l]
         j == FieldJudge(e)
     IN Note(j[1], e, j[2])
  /\ l' = l + 1
  /\ UNCHANGED regs
=============================================================================
