------------------------------ MODULE Scalar ------------------------------
(***************************************************************************)
(* Z/L: layer D.  A scalar is a LEN-byte string; the public constructors   *)
(* only ever produce canonical ones (value < L).                           *)
(***************************************************************************)
EXTENDS Field, Hash

S0 == Zero(LEN)
S1 == One(LEN)
ScIsCanonical(b) == Len(b) = LEN /\ BLt(b, L)

ScReduce(b)   == BMod(b, L)               \* any length -> LEN bytes
ScAdd(a, b)   == AddMod(a, b, L)
ScSub(a, b)   == SubMod(a, b, L)
ScMul(a, b)   == MulMod(a, b, L)
ScNeg(a)      == NegMod(a, L)
ScInvert(a)   == InvMod(a, L)             \* specified for a # 0
ScPow(a, e)   == PowMod(a, e, L)
ScSum(s, i)   == FoldLeft(LAMBDA acc, x : ScAdd(acc, x), S0, SubSeq(s, i, Len(s)))
ScProd(s, i)  == FoldLeft(LAMBDA acc, x : ScMul(acc, x), S1, SubSeq(s, i, Len(s)))

\* from_canonical_bytes: <<ok, value>>
ScFromCanonical(b) == IF BLt(b, L) THEN <<TRUE, b>> ELSE <<FALSE, S0>>

\* batch_invert: inverses and the inverse of the product (non-zero inputs)
ScBatchInvert(s) == <<[i \in 1..Len(s) |-> ScInvert(s[i])], ScInvert(ScProd(s, 1))>>

\* clamp_integer, scaled: clear the three low bits and the top bit, set the next
Clamp(b) == [i \in 1..Len(b) |->
               LET x0 == IF i = 1 THEN b[i] - (b[i] % 8) ELSE b[i]
                   x1 == IF i = Len(b) THEN (x0 % 64) + 64 ELSE x0
               IN x1]

ScFromHash(m) == ScReduce(SHA512(m))

=============================================================================
