INIT Init
NEXT Next
INVARIANT FinalOK
CHECK_DEADLOCK FALSE
