CONSTANTS
  NEGBITS = 56
  MUTANT = "add_skip_reduce"
INIT Init
NEXT Next
INVARIANT PreconditionsHold
INVARIANT TypeInv
INVARIANT Margins
CHECK_DEADLOCK FALSE
