------------------------------ MODULE ApiRis ------------------------------
(***************************************************************************)
(* Layer S for Ristretto: the public RistrettoPoint API as a state machine *)
(* over a small register file.  A register holds the internal Edwards      *)
(* representative (extended coordinates, as the code holds it); the ghost  *)
(* is the group element it denotes, as the index k of k*B in the group of  *)
(* prime order l'.  The representation invariant along every history:      *)
(* the representative is a valid point of 2E, its encoding is the          *)
(* canonical encoding of the ghost element, and equality of registers is   *)
(* equality of ghosts - whatever sequence of operations, decodings, one-   *)
(* way-map outputs and 4-torsion changes of representative produced them.  *)
(***************************************************************************)
EXTENDS Ristretto, TLC

CONSTANT NR, MAXSTEPS, MAPINPUTS
VARIABLES reg, gh, steps
vars == <<reg, gh, steps>>
Lp == Val(L)
Elem(k) == SMul(BN(k % Lp, 1), BasePt)
EncOf == [k \in 0..(Lp - 1) |-> RistEncodeAff(Elem(k))]
GhostOf(e) == CHOOSE k \in 0..(Lp - 1) : EncOf[k] = RistEncode(e)
T4s == {Torsion(0), Torsion(2), Torsion(4), Torsion(6)}
InEven(p) == SMul(BN(4 * Lp, 2), p) = Identity
Regs == 1..NR

Init == /\ gh \in [Regs -> 0..(Lp - 1)]
        /\ \E t \in [Regs -> T4s] : reg = [i \in Regs |-> FromAffine(PtAdd(Elem(gh[i]), t[i]))]
        /\ steps = 0
Put(c, e, g) == reg' = [reg EXCEPT ![c] = e] /\ gh' = [gh EXCEPT ![c] = g] /\ steps' = steps + 1
Add(a, b, c) == Put(c, EAdd(reg[a], reg[b]), (gh[a] + gh[b]) % Lp)
Sub(a, b, c) == Put(c, ESub(reg[a], reg[b]), (gh[a] + Lp - gh[b]) % Lp)
Neg(a, c) == Put(c, ENeg(reg[a]), (Lp - gh[a]) % Lp)
\* decoding the canonical encoding of element k; the one-way map on a two-byte input
Decode(k, c) == LET d == RistDecode(EncOf[k]) IN d[1] /\ Put(c, d[2], k)
Map(b, c) == LET e == RistFromUniform(b) IN Put(c, e, GhostOf(e))
\* scalar multiplication by a scalar class, on the representative, by double-and-add over the layer-A formulas: l' * P is
\* the identity ELEMENT held as whatever 4-torsion representative the arithmetic produces
RECURSIVE EMulSmall(_, _)
EMulSmall(e, n) == IF n = 0 THEN ExtIdentity
                   ELSE LET h == EMulSmall(e, n \div 2)  d == EAdd(h, h) IN IF n % 2 = 1 THEN EAdd(d, e) ELSE d
ScalarClasses == {0, 1, 2, Lp - 1, Lp, Lp + 1}
Mul(a, n, c) == Put(c, EMulSmall(reg[a], n), (gh[a] * n) % Lp)
\* not an API call: the same element held in another representative (P + T, T in E[4]), as other histories produce it
Rep(a, t) == Put(a, EAdd(reg[a], FromAffine(t)), gh[a])
Next == /\ steps < MAXSTEPS
        /\ \/ \E a, b, c \in Regs : Add(a, b, c) \/ Sub(a, b, c)
           \/ \E a, c \in Regs : Neg(a, c)
           \/ \E a, c \in Regs, n \in ScalarClasses : Mul(a, n, c)
           \/ \E k \in 0..(Lp - 1), c \in Regs : Decode(k, c)
           \/ \E b \in MAPINPUTS, c \in Regs : Map(b, c)
           \/ \E a \in Regs, t \in T4s : Rep(a, t)
RepInv == \A i \in Regs : /\ ExtValid(reg[i]) /\ InEven(ToAffine(reg[i]))
                          /\ RistEncode(reg[i]) = EncOf[gh[i]]
                          /\ RistDecode(RistEncode(reg[i]))[1]
EqInv == \A i, j \in Regs : RistEq(reg[i], reg[j]) = (gh[i] = gh[j])
GroupInv == Cardinality({EncOf[k] : k \in 0..(Lp - 1)}) = Lp          \* l' distinct encodings: the group has prime order l'
=============================================================================
