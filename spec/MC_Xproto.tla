---------------------------- MODULE MC_Xproto ----------------------------
(* Toy curve: every session history to MAXSTEPS over two parties and two wire slots; the adversary's alphabet is      *)
(* every byte (Inject) in the exhaustive configuration, a class-representative set in simulation.                      *)
EXTENDS Xproto, Params, TLC, Json
CONSTANT MAXSTEPS, SECRETS, INJECT
VARIABLES st, hist, steps, pick

\* class of an injected u, exported with the history so that the replay can pick a full-size u of the same class
UClass(u) == LET v == DecodeU(u) IN
             IF v = F0 THEN "zero" ELSE IF v = F1 THEN "one" ELSE IF v = FMinusOne THEN "minus1"
             ELSE IF XSmallOrderU(u) THEN "small" ELSE IF OnMontCurve(v) THEN "curve" ELSE "twist"
NonCanon(u) == ~IsCanonical(ClearTop(u))
Top(u) == u[Len(u)] \div 128

Init == st = XInitState /\ hist = <<>> /\ steps = 0 /\ pick = 0
Step(s2, h) == st' = s2 /\ hist' = Append(hist, h) /\ steps' = steps + 1
NewAct == \E p \in XParties, kd \in XKinds, k \in SECRETS : Step(XNew(st, p, kd, k), [op |-> "new", p |-> p, kind |-> kd, k |-> k[1]])
PublishAct == \E p \in XParties, w \in XSlots : XPublishEnabled(st, p) /\ Step(XPublish(st, p, w), [op |-> "publish", p |-> p, w |-> w])
InjectAct == \E w \in XSlots, u \in INJECT : Step(XInject(st, w, u), [op |-> "inject", w |-> w, cls |-> UClass(u), noncanon |-> NonCanon(u), top |-> Top(u)])
AliasAct == \E w \in XSlots, addp \in BOOLEAN, top \in {0, 1} : XAliasEnabled(st, w) /\ Step(XAlias(st, w, addp, top), [op |-> "alias", w |-> w, addp |-> addp, top |-> top])
CopyAct == \E w, w2 \in XSlots : w # w2 /\ XCopyEnabled(st, w) /\ Step(XCopy(st, w, w2), [op |-> "copy", w |-> w, w2 |-> w2])
DHAct == \E p \in XParties, w \in XSlots : XDHEnabled(st, p, w) /\ Step(XDH(st, p, w), [op |-> "dh", p |-> p, w |-> w])
DropAct == \E p \in XParties : XDropEnabled(st, p) /\ Step(XDrop(st, p), [op |-> "drop", p |-> p])
Next == /\ steps < MAXSTEPS /\ UNCHANGED pick
        /\ (NewAct \/ PublishAct \/ InjectAct \/ AliasAct \/ CopyAct \/ DHAct \/ DropAct)
\* simulation: TLC picks uniformly among successor STATES, which would almost never pick one of the few DH calls among the
\* many new-secret / inject successors; so the kind of action is drawn first (a separate step), then one action of that kind
SimNext == /\ steps < MAXSTEPS
           /\ IF pick = 0 THEN pick' \in 1..12 /\ UNCHANGED <<st, hist, steps>>
              ELSE /\ pick' = 0
                   /\ \/ (pick \in {1, 2} /\ NewAct) \/ (pick \in {3, 4} /\ PublishAct) \/ (pick = 5 /\ InjectAct) \/ (pick = 6 /\ AliasAct)
                      \/ (pick = 7 /\ CopyAct) \/ (pick \in {8, 9, 10, 11} /\ DHAct) \/ (pick = 12 /\ DropAct)
                      \/ UNCHANGED <<st, hist, steps>>

Inv == XLastOK(st) /\ XWireOK(st) /\ XLifeOK(st)
\* two parties that each used the other's honest key hold the same secret (checked whenever both facts are visible:
\* the last DH of p against q's key, and q's secret still in place)
Agreement ==
  LET d == st.last IN
  (d.p # "none" /\ d.peer.from \in XParties /\ st.sk[d.peer.from].k = d.peer.fk) =>
     d.ss = XShared(d.peer.fk, XPub(d.k))
\* the alias never changes what anybody derives
AliasFree == \A w \in XSlots, p \in XParties :
               (st.sk[p].live /\ st.wire[w].from # "none") =>
                  \A addp \in BOOLEAN, top \in {0, 1} : XShared(st.sk[p].k, XAliasBytes(st.wire[w].u, addp, top)) = XShared(st.sk[p].k, st.wire[w].u)
\* a dead ephemeral secret enables no DH
DeadOK == \A p \in XParties, w \in XSlots : (st.sk[p].kind = "ephemeral" /\ ~st.sk[p].live) => ~XDHEnabled(st, p, w)
View == <<st, steps>>
Emit == (steps = MAXSTEPS /\ pick = 0) => PrintT(<<"HIST", ToJson(hist)>>)
\* kept counterexample: a "contributory" test that only looks for the all-zero WIRE bytes misses the other small-order points
SecretsSmall == {<<0>>, <<77>>, <<255>>}
SecretsSim == {<<0>>, <<7>>, <<77>>, <<130>>, <<200>>, <<255>>}
SecretsAll == Bytes(LEN)
InjectAll == Bytes(LEN)
InjectClasses == {<<0>>, <<1>>, <<28>>, <<29>>, <<30>>, <<128>>, <<157>>, <<2>>, <<3>>, <<5>>, <<9>>, <<60>>, <<100>>, <<255>>}
NaiveContributory == st.last.p # "none" => (st.last.contributory = ~BIsZero(DecodeU(st.last.peer.u)))
=============================================================================
