------------------------------ MODULE TraceVec ------------------------------
(***************************************************************************)
(* Trace specification for the vector backends' internals (C01 lanes, C11  *)
(* lane bounds), the shipped constants and tables (C12).                   *)
(* A vector is four lanes; every vector operation is specified lane-wise.  *)
(***************************************************************************)
EXTENDS Montgomery, Ristretto, TraceBase
IF_ == INSTANCE IfmaField

\* local copy of TraceField's limb valuation (kept here so that this module is self-contained)
VShifts51  == <<0, 51, 102, 153, 204>>
VShifts255 == <<0, 26, 51, 77, 102, 128, 153, 179, 204, 230>>
VLV(limbs) == FromLimbs(limbs, IF Len(limbs) = 5 THEN VShifts51 ELSE VShifts255)
LaneVals(v) == [i \in 1..4 |-> VLV(v[i].limbs)]
LanesAre(v, x) == \A i \in 1..4 : v[i].bytes = x[i] /\ VLV(v[i].limbs) = x[i]

VecOps == {"vec.new", "vec.from_raw", "vec.op1", "vec.op2", "vec.mul_consts"}
VecExpected(e) ==
  LET o == e.obs
      a == IF Len(o.ins) >= 1 THEN LaneVals(o.ins[1]) ELSE <<>>
      b == IF Len(o.ins) >= 2 THEN LaneVals(o.ins[2]) ELSE <<>>
  IN CASE e.op = "vec.new" -> [i \in 1..4 |-> VLV(o.lanes_in[i])]
       [] e.op = "vec.from_raw" -> [i \in 1..4 |-> VLV(e.lanes[i])]
       [] e.op = "vec.mul_consts" -> [i \in 1..4 |-> FMul(a[i], BMod(BN(e.c[i], LEN + 4), P))]
       [] e.op = "vec.op1" ->
           (CASE e.f = "reduce" -> a
              [] e.f \in {"negate_lazy", "neg"} -> [i \in 1..4 |-> FNeg(a[i])]
              [] e.f = "diff_sum" -> <<FSub(a[2], a[1]), FAdd(a[2], a[1]), FSub(a[4], a[3]), FAdd(a[4], a[3])>>
              [] e.f = "square_and_negate_D" -> <<FSq(a[1]), FSq(a[2]), FSq(a[3]), FNeg(FSq(a[4]))>>
              [] e.f = "square" -> [i \in 1..4 |-> FSq(a[i])]
              [] e.f = "shuffle" -> [i \in 1..4 |-> a[e.perm[i]]])
       [] e.op = "vec.op2" ->
           (CASE e.f = "mul" -> [i \in 1..4 |-> FMul(a[i], b[i])]
              [] e.f = "add" -> [i \in 1..4 |-> FAdd(a[i], b[i])]
              [] e.f = "blend" -> [i \in 1..4 |-> IF e.mask[i] = 1 THEN b[i] ELSE a[i]])
\* documented post-bounds (AVX2 lanes): a bound claimed by the generator for this result ("bound" = excess bits x 1000)
VecBoundOK(e) ==
  ~Has(e, "bound_even") \/ (BLe(e.obs.max_even, e.bound_even) /\ BLe(e.obs.max_odd, e.bound_odd))
\* ---- IFMA lanes (five 64-bit limbs): the kernels are specified LIMB-EXACTLY by IfmaField.tla, so the observed limbs - not
\* only the field values - must equal the model's; products of legal multiplicands must not wrap any accumulator
IsIfma(e) == e.op \in {"vec.op1", "vec.op2", "vec.mul_consts"} /\ Has(e.obs, "vkind") /\ e.obs.vkind = "ifma"
IL(v) == [i \in 1..4 |-> v[i].limbs]
IfmaLimbsExpected(e) ==
  LET o == e.obs
      a == IL(o.ins[1])
      b == IF Len(o.ins) >= 2 THEN IL(o.ins[2]) ELSE <<>>
  IN CASE e.op = "vec.mul_consts" -> [i \in 1..4 |-> IF_!MulConst(a[i], e.c[i])]
       [] e.op = "vec.op1" ->
           (CASE e.f = "reduce" -> [i \in 1..4 |-> IF_!Reduce(a[i])]
              [] e.f = "negate_lazy" -> [i \in 1..4 |-> IF_!NegateLazy(a[i])]
              [] e.f = "neg" -> [i \in 1..4 |-> IF_!Neg(a[i])]
              [] e.f = "diff_sum" -> IF_!DiffSum(a)
              [] e.f = "square" -> [i \in 1..4 |-> IF_!Square(a[i])]
              [] e.f = "shuffle" -> [i \in 1..4 |-> a[e.perm[i]]])
       [] e.op = "vec.op2" ->
           (CASE e.f = "mul" -> [i \in 1..4 |-> IF_!Mul(a[i], b[i])]
              [] e.f = "add" -> [i \in 1..4 |-> IF_!AddL(a[i], b[i])]
              [] e.f = "blend" -> [i \in 1..4 |-> IF e.mask[i] = 1 THEN b[i] ELSE a[i]])
IfmaNoWrap(e) ==
  LET a == IL(e.obs.ins[1]) IN
  CASE e.op = "vec.op2" /\ e.f = "mul" ->
         LET b == IL(e.obs.ins[2]) IN \A i \in 1..4 : (IF_!IsReduced(a[i]) /\ IF_!IsReduced(b[i])) => (IF_!MulNoWrap(a[i], b[i]) /\ IF_!FoldedFit(a[i], b[i]))
    [] e.op = "vec.op1" /\ e.f = "square" -> \A i \in 1..4 : IF_!IsReduced(a[i]) => (IF_!MulNoWrap(a[i], a[i]) /\ IF_!FoldedFit(a[i], a[i]))
    [] OTHER -> TRUE
IfmaExact(e) == ~IsIfma(e) \/ (IL(e.obs.r) = IfmaLimbsExpected(e) /\ IfmaNoWrap(e))
VecStep ==
  /\ l <= Len(Rec) /\ Rec[l].op \in VecOps
  /\ LET e == Rec[l] IN
       IF ~NoPanic(e) THEN Note(FALSE, e, "panic")
       ELSE LET x == VecExpected(e) IN
            IF ~(LanesAre(e.obs.r, x) /\ VecBoundOK(e)) THEN Note(FALSE, e, x)
            \* The field VALUES are right.  If the LIMBS differ from IfmaField.tla, the kernel has been restructured (another
            \* multiple of p in negate_lazy, another carry schedule ...): that is not a violation of any property, it means the
            \* limb-exact model and BoundsIfma.tla no longer describe this code.  Recorded once, as a "soft" note (reported in
            \* the evidence as a stale model); the value checks and the directed extreme operands still apply.
            ELSE IF IfmaExact(e) \/ (\E k \in 1..Len(bad) : Has(bad[k], "soft")) \/ Len(bad) >= MaxBad THEN UNCHANGED bad
            ELSE bad' = Append(bad, [line |-> l, i |-> e.i, op |-> e.op, cfg |-> e.cfg, soft |-> TRUE,
                                     why |-> [ifma_limb_model_differs |-> IfmaLimbsExpected(e)]])
  /\ l' = l + 1 /\ UNCHANGED regs

\* ---- parallel point formulas -------------------------------------------------------------
VPt(n) == regs[n].p
VecPointStep ==
  /\ l <= Len(Rec) /\ Rec[l].op = "vec.point"
  /\ LET e == Rec[l] IN
       IF ~NoPanic(e) THEN Note(FALSE, e, "panic") /\ SetReg(e.out, NoneVal)
       ELSE LET p == VPt(e.in[1])  q == VPt(e.in[2])
                x == CASE e.f = "roundtrip" -> p
                       [] e.f = "double" -> PtDouble(p)
                       [] e.f = "add" -> PtAdd(p, q)
                       [] e.f \in {"sub", "add_neg"} -> PtSub(p, q)
                       [] e.f = "pow2" -> PtPow2(p, e.k)
                o == e.obs.r
                X == o.xyzt[1]  Y == o.xyzt[2]  Z == o.xyzt[3]  T == o.xyzt[4]  zi == FInv(Z)
            IN /\ Note(/\ o.c = Compress(x) /\ ~FIsZero(Z) /\ FMul(X, Y) = FMul(Z, T)
                       /\ FMul(X, zi) = x[1] /\ FMul(Y, zi) = x[2], e, Compress(x))
               /\ SetReg(e.out, [t |-> "ed", p |-> x])
  /\ l' = l + 1

\* cached form: lanes = lambda * (Y-X, Y+X, 2Z, 2dT); checked through the ratios to the Z lane
CachedIs(lanes, p) ==
  LET a == lanes[1].bytes  b == lanes[2].bytes  c == lanes[3].bytes  dd == lanes[4].bytes
      ci == FInv(c)  two == FN(2)
  IN /\ ~FIsZero(c)
     /\ \A i \in 1..4 : VLV(lanes[i].limbs) = lanes[i].bytes
     /\ FMul(FMul(a, two), ci) = FSub(p[2], p[1])
     /\ FMul(FMul(b, two), ci) = FAdd(p[2], p[1])
     /\ FMul(FMul(dd, two), ci) = FMul(D2, FMul(p[1], p[2]))
\* affine Niels entry (y+x, y-x, 2dxy), limbs reduced
\* shipped constants are weakly reduced: one bit above the radix (y+x is stored as an unreduced sum), far
\* inside every kernel's precondition
LimbsReduced(limbs) == \A i \in 1..Len(limbs) :
                         BLt(limbs[i], BPow2(IF Len(limbs) = 5 THEN 52 ELSE IF i % 2 = 1 THEN 27 ELSE 26, 8))
NielsIs(en, p) ==
  /\ en[1].bytes = FAdd(p[2], p[1]) /\ en[2].bytes = FSub(p[2], p[1]) /\ en[3].bytes = FMul(D2, FMul(p[1], p[2]))
  /\ \A i \in 1..3 : VLV(en[i].limbs) = en[i].bytes /\ LimbsReduced(en[i].limbs)

\* ---- constants -------------------------------------------------------------------------------
ScalarLimbVal(limbs, bits) ==
  FoldLeft(LAMBDA acc, i : BAdd(acc, BShl(limbs[i], bits * (i - 1), 40), 40), Zero(40), [i \in 1..Len(limbs) |-> i])
FieldConst(name) ==
  CASE name \in {"MINUS_ONE", "FE_MINUS_ONE"} -> FMinusOne
    [] name = "EDWARDS_D" -> D
    [] name = "EDWARDS_D2" -> FAdd(D, D)
    [] name = "ONE_MINUS_EDWARDS_D_SQUARED" -> FSub(F1, FSq(D))
    [] name = "EDWARDS_D_MINUS_ONE_SQUARED" -> FSq(FSub(D, F1))
    [] name = "SQRT_AD_MINUS_ONE" -> SQRT_AD_MINUS_ONE
    [] name = "INVSQRT_A_MINUS_D" -> INVSQRT_A_MINUS_D
    [] name = "SQRT_M1" -> SQRT_M1
    [] name = "APLUS2_OVER_FOUR" -> APLUS2_OVER_FOUR
    [] name = "MONTGOMERY_A" -> MONT_A
    [] name = "MONTGOMERY_A_NEG" -> FNeg(MONT_A)
    [] name = "FE_ZERO" -> F0
    [] name = "FE_ONE" -> F1
ConstOK(c, all) ==
  IF c.kind = "field" THEN c.bytes = FieldConst(c.name) /\ VLV(c.limbs) = FieldConst(c.name) /\ LimbsReduced(c.limbs)
  ELSE LET bits == IF Len(all.L.limbs) = 5 THEN 52 ELSE 29
           nl == Len(all.L.limbs)
           Lw == Resize(L, 40)
           Rm == BMod(BPow2(bits * nl, 40), Lw)                      \* R = 2^260 (2^261) mod l
       IN IF c.name = "L" THEN ScalarLimbVal(c.limbs, bits) = Lw
          ELSE IF c.name = "R" THEN Resize(ScalarLimbVal(c.limbs, bits), LEN) = Resize(Rm, LEN) /\ BLt(ScalarLimbVal(c.limbs, bits), Lw)
          ELSE IF c.name = "RR" THEN Resize(ScalarLimbVal(c.limbs, bits), LEN) = MulMod(Rm, Rm, L) /\ BLt(ScalarLimbVal(c.limbs, bits), Lw)
          ELSE IF c.name = "LFACTOR" THEN          \* l * LFACTOR = -1 (mod 2^bits)
               BMod(BAdd(BMul(Lw, c.limbs[1], 48), One(48), 48), BPow2(bits, 48)) = Zero(48)
          ELSE FALSE
ConstNames == {"MINUS_ONE", "EDWARDS_D", "EDWARDS_D2", "ONE_MINUS_EDWARDS_D_SQUARED", "EDWARDS_D_MINUS_ONE_SQUARED", "SQRT_AD_MINUS_ONE",
               "INVSQRT_A_MINUS_D", "SQRT_M1", "APLUS2_OVER_FOUR", "MONTGOMERY_A", "MONTGOMERY_A_NEG", "FE_ZERO", "FE_ONE", "FE_MINUS_ONE",
               "L", "R", "RR", "LFACTOR"}
ByName(cs) == [n \in {cs[i].name : i \in 1..Len(cs)} |-> cs[CHOOSE i \in 1..Len(cs) : cs[i].name = n]]
PtObsIs(o, p) == o.c = Compress(p) /\ ~FIsZero(o.xyzt[3]) /\ FMul(o.xyzt[1], o.xyzt[2]) = FMul(o.xyzt[3], o.xyzt[4])
                 /\ FMul(o.xyzt[1], FInv(o.xyzt[3])) = p[1] /\ FMul(o.xyzt[2], FInv(o.xyzt[3])) = p[2]
ConstJudge(e) ==
  LET o == e.obs IN
  IF ~NoPanic(e) THEN <<FALSE, "panic">>
  ELSE IF e.op = "const.dump" THEN
       LET all == ByName(o.consts)
           badset == {o.consts[i].name : i \in {j \in 1..Len(o.consts) : ~ConstOK(o.consts[j], all)}}
       IN <<badset = {} /\ ConstNames \subseteq DOMAIN all, badset \cup (ConstNames \ DOMAIN all)>>
  ELSE IF e.op = "const.table_entry" THEN      \* (j+1) * 256^i * B
       LET p == SMul(BShl(BN(e.tj + 1, 1), 8 * e.ti, LEN + 1), BasePt) IN <<NielsIs(o.e, p), Compress(p)>>
  ELSE IF e.op = "const.odd_entry" THEN        \* (2k+1) * B
       LET p == SMul(BN(2 * e.k + 1, 2), BasePt) IN <<NielsIs(o.e, p), Compress(p)>>
  ELSE IF e.op = "const.vec_odd_entry" THEN
       LET p == SMul(BN(2 * e.k + 1, 2), BasePt) IN <<CachedIs(o.lanes, p), Compress(p)>>
  ELSE IF e.op = "vec.cached" THEN <<CachedIs(o.lanes, VPt(e.in[1])), Compress(VPt(e.in[1]))>>
  ELSE IF e.op = "const.public" THEN
       LET t == o.EIGHT_TORSION
           T1 == DecompressPt(t[2].c)
       IN <</\ o.ED25519_BASEPOINT_COMPRESSED = BASE /\ PtObsIs(o.ED25519_BASEPOINT_POINT, BasePt)
            /\ SMul(L, BasePt) = Identity /\ BasePt # Identity
            /\ FMul(BasePt[2], FN(5)) = FN(4) /\ ~FIsNeg(BasePt[1])                       \* y = 4/5, x non-negative
            /\ o.X25519_BASEPOINT = ToMontgomery(BasePt) /\ o.X25519_BASEPOINT_BYTES = o.X25519_BASEPOINT
            /\ o.X25519_BASEPOINT = ToBytes(9, LEN)
            /\ o.RISTRETTO_BASEPOINT_COMPRESSED = RistEncodeAff(BasePt) /\ o.RISTRETTO_BASEPOINT_POINT = o.RISTRETTO_BASEPOINT_COMPRESSED
            /\ o.BASEPOINT_ORDER = L /\ o.SCALAR_ZERO = S0 /\ o.SCALAR_ONE = S1
            /\ Len(t) = 8
            /\ \A i \in 1..8 : PtObsIs(t[i], SMul(BN(i - 1, 1), T1)) /\ OnCurve(DecompressPt(t[i].c))
            /\ SMul(BN(8, 1), T1) = Identity /\ SMul(BN(4, 1), T1) # Identity                 \* exact order 8: the set is E[8]
            /\ Cardinality({t[i].c : i \in 1..8}) = 8,
            "public constants">>
  ELSE <<FALSE, "unknown">>
ConstOps == {"chk.formulas", "const.dump", "const.table_entry", "const.odd_entry", "const.vec_odd_entry", "const.public", "vec.cached", "vec.available"}
ConstStep ==
  /\ l <= Len(Rec) /\ Rec[l].op \in ConstOps
  /\ LET e == Rec[l] IN
       IF e.op \in {"vec.available", "chk.formulas"} THEN Note(NoPanic(e), e, IF NoPanic(e) THEN "" ELSE e.panic)
       ELSE LET j == ConstJudge(e) IN Note(j[1], e, j[2])
  /\ l' = l + 1 /\ UNCHANGED regs
=============================================================================
