CONSTANTS
  BACKEND = "u64"
  MUTANT = "none"
INIT Init
NEXT Next
INVARIANT NoViolation
CHECK_DEADLOCK FALSE
