---- MODULE MC_Bounds ----
EXTENDS Bounds
====
