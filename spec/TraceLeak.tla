------------------------------ MODULE TraceLeak ------------------------------
(* Trace specification for C10: memcheck secret-taint events judged by the secrecy policy of Leakage.tla. *)
EXTENDS Leakage, TraceBase
LeakStep ==
  /\ l <= Len(Rec) /\ Rec[l].op \in {"ct.run", "ct.info"}
  /\ LET e == Rec[l] IN
       IF e.op = "ct.info" THEN Note(NoPanic(e), e, "panic")
       ELSE IF ~NoPanic(e) THEN Note(FALSE, e, "panic")
       \* a constant-time operation must raise no report between the markers; a report is a CANDIDATE that the
       \* runner confirms with lock-step instruction/address traces before it may become a violation
       ELSE Note(IsVartime(e.target) \/ e.obs.reports = 0, e, [candidate |-> e.target, reports |-> e.obs.reports])
  /\ l' = l + 1 /\ UNCHANGED regs
=============================================================================
