----------------------------- MODULE TraceMore -----------------------------
(* Trace specification for total decoders (C15), serde (C16) and the ff/group traits (C17). *)
EXTENDS Montgomery, Serde, GroupTraits, Ed25519, TraceBase

MoreOps == {"tot.vk_from_slice", "tot.sig_from_slice", "tot.x_public", "serde.roundtrip", "serde.de",
            "ff.scalar", "ff.from_repr", "ff.constants", "grp.from_bytes", "grp.cofactor", "grp.ris"}
MPt(n) == regs[n].p
DeOK(o, ty, bin, js) ==
  LET a == DeBin(ty, bin, FALSE)  b == DeBin(ty, bin, TRUE)  c == DeJson(ty, js) IN
  /\ o.bin_ok = a[1] /\ (a[1] => o.bin = a[2])
  /\ o.strict_ok = b[1] /\ (b[1] => o.strict = b[2])
  /\ o.json_ok = c[1] /\ (c[1] => o.json = c[2])
MoreJudge(e) ==
  LET o == e.obs IN
  IF ~NoPanic(e) THEN <<FALSE, "panic">>
  ELSE IF e.op = "tot.vk_from_slice" THEN
       LET x == Len(e.in[1]) = LEN /\ Decompress(e.in[1])[1] IN <<o.ok = x, x>>
  ELSE IF e.op = "tot.sig_from_slice" THEN
       LET x == Len(e.in[1]) = 2 * LEN IN <<o.ok = x /\ o.ok2 = x /\ (x => o.bytes = e.in[1]), x>>
  ELSE IF e.op = "tot.x_public" THEN <<o.bytes = e.in[1] /\ o.to = e.in[1], e.in[1]>>
  ELSE IF e.op = "serde.roundtrip" THEN
       LET p == e.in[1]  ty == e.ty IN
       <</\ o.ser.bin = SerBin(ty, p) /\ o.ser.json = SerJson(ty, p)
         /\ DeOK(o.de, ty, SerBin(ty, p), SerJson(ty, p))
         /\ o.de.bin_ok /\ o.de.strict_ok /\ o.de.json_ok /\ o.de.bin = Canon(ty, p), SerBin(ty, p)>>
  ELSE IF e.op = "serde.de" THEN <<DeOK(o, e.ty, e.in[1], e.js), <<DeBin(e.ty, e.in[1], FALSE)[1], DeBin(e.ty, e.in[1], TRUE)[1], DeJson(e.ty, e.js)[1]>>>>
  ELSE IF e.op = "ff.scalar" THEN
       LET a == o.a  b == o.b IN
       <</\ SqrtOK(a, o.sqrt_ok, o.sqrt)
         /\ o.inv_ok = ~BIsZero(a) /\ (o.inv_ok => o.inv = ScInvert(a))
         /\ o.square = ScMul(a, a) /\ o.double = ScAdd(a, a)
         /\ o.is_odd = (a[1] % 2 = 1) /\ o.is_zero = BIsZero(a) /\ o.repr = a
         \* sqrt_ratio(num, div): (TRUE, sqrt(num/div)) if div # 0 and num/div is a square; (TRUE, 0) if num = 0;
         \* (FALSE, 0) if div = 0 and num # 0; (FALSE, sqrt(G_S * num/div)) otherwise
         /\ LET q == ScMul(a, ScInvert(b)) IN
            IF BIsZero(a) THEN o.ratio_ok /\ BIsZero(o.ratio)
            ELSE IF BIsZero(b) THEN ~o.ratio_ok /\ BIsZero(o.ratio)
            ELSE IF ScIsQR(q) THEN o.ratio_ok /\ ScMul(o.ratio, o.ratio) = q
            ELSE ~o.ratio_ok /\ ScMul(o.ratio, o.ratio) = ScMul(ScPow(BN(2, LEN), TOdd), q),
         "ff laws">>
  ELSE IF e.op = "ff.from_repr" THEN
       LET x == BLt(e.in[1], L) IN <<o.ok = x /\ o.vt_ok = x /\ (x => o.r = e.in[1] /\ o.vt = e.in[1]), x>>
  ELSE IF e.op = "ff.constants" THEN <<ConstantsOK(o), "constants">>
  ELSE IF e.op = "grp.from_bytes" THEN
       LET b == e.in[1]  d == Decompress(b)  r == RistDecode(b)
           tf == d[1] /\ IsTorsionFree(d[2])
       IN <</\ o.ed_ok = d[1] /\ o.edu_ok = d[1] /\ (d[1] => o.ed = Compress(d[2]))
            /\ o.sg_ok = tf /\ (tf => o.sg = Compress(d[2]))
            \* group's from_bytes_unchecked MAY skip checks, but C17 says the subgroup wrapper admits exactly the torsion-free
            \* points, and a safe function that builds a SubgroupPoint with a torsion component breaks that: same rule as from_bytes
            /\ o.sgu_ok = tf
            /\ o.ris_ok = r[1] /\ o.risu_ok = r[1] /\ (r[1] => o.ris = b),
            <<d[1], tf, r[1]>>>>
  ELSE IF e.op = "grp.cofactor" THEN
       LET p == MPt(e.in[1])  tf == IsTorsionFree(p) IN
       <</\ o.torsion_free = tf /\ o.small_order = IsSmallOrder(p)
         /\ o.into_ok = tf /\ (tf => o.into = Compress(p))
         /\ o.clear = Compress(MulByCofactor(p))
         /\ o.is_identity = (p = Identity) /\ o.double = Compress(PtDouble(p))
         /\ o.gen = Compress(BasePt) /\ o.id = Compress(Identity), tf>>
  ELSE IF e.op = "grp.ris" THEN
       LET p == MPt(e.in[1])  enc == RistEncodeAff(p) IN
       <</\ o.is_identity = (enc = Zero(LEN)) /\ o.bytes = enc /\ o.double = RistEncodeAff(PtDouble(p))
         /\ o.gen = RistEncodeAff(BasePt) /\ o.id = Zero(LEN), enc>>
  ELSE <<FALSE, "unknown">>
MoreStep ==
  /\ l <= Len(Rec) /\ Rec[l].op \in MoreOps
  /\ LET e == Rec[l]  j == MoreJudge(e) IN Note(j[1], e, j[2])
  /\ l' = l + 1 /\ UNCHANGED regs

\* the deprecated hash-to-curve: SHA-512, Elligator2, the birational map with the hash's sign bit, cofactor clearing
NonspecMapStep ==
  /\ l <= Len(Rec) /\ Rec[l].op = "tot.ed_nonspec_map"
  /\ LET e == Rec[l] IN
       IF ~NoPanic(e) THEN Note(FALSE, e, "panic") /\ SetReg(e.out, NoneVal)
       ELSE LET h == SubSeq(SHA512(e.in[1]), 1, LEN)
                m == ElligatorEncode(FromBytes(h))
                ed == ToEdwards(m, TopBit(h))
                x == MulByCofactor(ed[2])
            IN /\ Note(ed[1] /\ e.obs.r.c = Compress(x), e, Compress(x))
               /\ SetReg(e.out, [t |-> "ed", p |-> x])
  /\ l' = l + 1
=============================================================================
