CONSTANTS
  R = 4
  N = 2
  C = 5
  H = 3
  WB = 12
  BSET = "SOME"
INIT Init
NEXT Next
INVARIANT MulNoOverflow
CHECK_DEADLOCK FALSE
