CONSTANTS
  LEN = 1
  P <- P_109
  D <- D_109
  L <- L_109
  BASE <- BASE_109
  T8ENC <- T8_109
INIT Init
NEXT Next
INVARIANT Inv
CHECK_DEADLOCK FALSE
