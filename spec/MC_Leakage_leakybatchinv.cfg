INIT Init
NEXT Next
INVARIANT LeakyBatchInv
CHECK_DEADLOCK FALSE
