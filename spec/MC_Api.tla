---- MODULE MC_Api ----
EXTENDS Api, Params
====
