----------------------------- MODULE IfmaField -----------------------------
(***************************************************************************)
(* Layer A, AVX-512 IFMA field kernels (backend/vector/ifma/field.rs),     *)
(* LIMB-EXACT: one lane is a sequence of five 64-bit limbs (radix 2^51),   *)
(* each limb an 8-byte little-endian sequence as in the traces.  The       *)
(* instruction semantics are those of vpmadd52luq / vpmadd52huq: the low   *)
(* 52 bits of both multiplicands are multiplied (104-bit product) and the  *)
(* low / high 52 bits of the product are added to a 64-bit accumulator,    *)
(* wrapping.  All other lane arithmetic wraps modulo 2^64 as well.         *)
(*                                                                         *)
(* Structure of the product, read off the code (the "waves" only reorder   *)
(* commutative accumulations):                                             *)
(*    z_k,1 = sum over i+j = k   of lo(x_i, y_j)          k = 0..8         *)
(*    z_k,2 = sum over i+j = k-1 of hi(x_i, y_j)          k = 1..9         *)
(*    z_k   = z_k,1 + 2 z_k,2                             k = 5..9         *)
(*  and the reduction folds z_5..z_9 with three multiplications by 19 per  *)
(*  term (low half, high half, and the part of z_k above 2^52).            *)
(* The same operators are evaluated at width WIDE without wrapping; a      *)
(* kernel "does not wrap" on an input iff both evaluations agree.          *)
(***************************************************************************)
EXTENDS BigNat, Naturals, Sequences

W64 == 8
WIDE == 12
M52 == BPow2(52, 8)
Low52(a) == BMod(a, M52)                                          \* 8 bytes
Prod(x, y) == BMul(Low52(x), Low52(y), 16)                        \* below 2^104
Lo52(x, y, w) == Resize(BMod(Prod(x, y), BPow2(52, 16)), w)
Hi52(x, y, w) == Resize(BShr(Prod(x, y), 52, 16), w)
C19 == BN(19, 8)

RECURSIVE SumSeq(_, _)
SumSeq(s, w) == IF s = <<>> THEN Zero(w) ELSE BAdd(Head(s), SumSeq(Tail(s), w), w)
\* index pairs (i, j), 0-based, with i + j = k and both in 0..4, for k = 0..8 (literal: TLC does not cache operator applications)
PairSeq == <<<<<<0, 0>>>>, <<<<0, 1>>, <<1, 0>>>>, <<<<0, 2>>, <<1, 1>>, <<2, 0>>>>, <<<<0, 3>>, <<1, 2>>, <<2, 1>>, <<3, 0>>>>, <<<<0, 4>>, <<1, 3>>, <<2, 2>>, <<3, 1>>, <<4, 0>>>>, <<<<1, 4>>, <<2, 3>>, <<3, 2>>, <<4, 1>>>>, <<<<2, 4>>, <<3, 3>>, <<4, 2>>>>, <<<<3, 4>>, <<4, 3>>>>, <<<<4, 4>>>>>>
ASSUME \A k \in 0..8 : {PairSeq[k + 1][n] : n \in 1..Len(PairSeq[k + 1])} = {p \in (0..4) \X (0..4) : p[1] + p[2] = k}
LoSum(x, y, k, w) == SumSeq([n \in 1..Len(PairSeq[k + 1]) |-> LET p == PairSeq[k + 1][n] IN Lo52(x[p[1] + 1], y[p[2] + 1], w)], w)
HiSum(x, y, k, w) == SumSeq([n \in 1..Len(PairSeq[k + 1]) |-> LET p == PairSeq[k + 1][n] IN Hi52(x[p[1] + 1], y[p[2] + 1], w)], w)
Twice(a, w) == BAdd(a, a, w)

\* &F51x4Reduced * &F51x4Reduced, one lane, at width w (w = 8: the code; w = WIDE: the same sums without wrapping)
MulW(x, y, w) ==
  LET z1(k) == IF k <= 8 THEN LoSum(x, y, k, w) ELSE Zero(w)
      z2(k) == IF k >= 1 THEN HiSum(x, y, k - 1, w) ELSE Zero(w)
      z(k) == BAdd(z1(k), Twice(z2(k), w), w)                                  \* k = 5..9
      t0 == Hi52(C19, z(9), w)
      t1 == Lo52(C19, BShr(z(9), 52, w), w)
      a1(k) == BAdd(z1(k), Lo52(C19, z(k + 5), w), w)                          \* k = 0..4
      a2(k) == IF k = 0 THEN Lo52(C19, BAdd(t0, t1, w), w)
               ELSE BAdd(z2(k), BAdd(Lo52(C19, BShr(z(k + 4), 52, w), w), Hi52(C19, z(k + 4), w), w), w)
  IN [k \in 1..5 |-> BAdd(a1(k - 1), Twice(a2(k - 1), w), w)]
Mul(x, y) == MulW(x, y, W64)
\* F51x4Reduced::square accumulates the same sums with other coefficients (2 and 4); equal modulo 2^64
Square(x) == Mul(x, x)
MulNoWrap(x, y) == \A k \in 1..5 : BEq(MulW(x, y, WIDE)[k], Mul(x, y)[k])
\* the accumulators that are folded: z_5..z_9 (wide evaluation) must fit 64 bits
FoldedFit(x, y) == \A k \in 5..9 : BLt(BAdd(IF k <= 8 THEN LoSum(x, y, k, WIDE) ELSE Zero(WIDE), Twice(HiSum(x, y, k - 1, WIDE), WIDE), WIDE), BPow2(64, WIDE))

\* &F51x4Reduced * (u32, u32, u32, u32): c is the lane's constant
MulConst(x, c) ==
  LET y == BN(c, 8)
      z1(k) == Lo52(y, x[k + 1], W64)
      z2(k) == IF k = 0 THEN Zero(W64) ELSE Hi52(y, x[k], W64)
      z52 == Hi52(y, x[5], W64)
      o0 == BAdd(z1(0), Lo52(Twice(z52, W64), C19, W64), W64)
  IN [k \in 1..5 |-> IF k = 1 THEN o0 ELSE BAdd(z1(k - 1), Twice(z2(k - 1), W64), W64)]

\* From<F51x4Unreduced> for F51x4Reduced
M51 == BPow2(51, 8)
Reduce(x) ==
  LET c(k) == BShr(x[k], 51, W64)
      lowp(k) == BMod(x[k], M51)
  IN [k \in 1..5 |-> IF k = 1 THEN BAdd(lowp(1), Lo52(c(5), C19, W64), W64) ELSE BAdd(lowp(k), c(k - 1), W64)]
\* negate_lazy: 2^(NEGBITS - 51) * p - x limb-wise, wrapping.  NEGBITS = 56 (32p): 72057594037927328 = 2^56 - 608 and
\* 72057594037927904 = 2^56 - 32.  (The pinned commit had 16p = 2^55 - 304 / 2^55 - 16, which a product limb can exceed:
\* BoundsIfma.tla, KNOWN_FINDINGS.txt.)  The limb-exact trace check of negate_lazy binds this constant to the code.
NEGBITS == 56
NegLo == BSub(BPow2(NEGBITS, 8), BN(19 * 2^(NEGBITS - 51), 8), 8)
NegHi == BSub(BPow2(NEGBITS, 8), BN(2^(NEGBITS - 51), 8), 8)
NegateLazy(x) == [k \in 1..5 |-> BSub(IF k = 1 THEN NegLo ELSE NegHi, x[k], W64)]
CanNegate(x) == \A k \in 1..5 : BLe(x[k], IF k = 1 THEN NegLo ELSE NegHi)
Neg(x) == Reduce(NegateLazy(x))                                    \* Neg for F51x4Reduced
AddL(x, y) == [k \in 1..5 |-> BAdd(x[k], y[k], W64)]
\* diff_sum on four lanes (A B C D) -> (B - A, A + B, D - C, C + D)
DiffSum(v) == <<AddL(v[2], NegateLazy(v[1])), AddL(v[1], v[2]), AddL(v[4], NegateLazy(v[3])), AddL(v[3], v[4])>>
\* a legal multiplicand vector
IsReduced(x) == \A k \in 1..5 : BLt(x[k], BPow2(52, 8))
=============================================================================
