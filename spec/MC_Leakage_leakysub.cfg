INIT Init
NEXT Next
INVARIANT LeakySub
CHECK_DEADLOCK FALSE
