CONSTANTS
  NEGBITS = 55
  MUTANT = "none"
INIT Init
NEXT Next
INVARIANT PreconditionsHold
INVARIANT TypeInv
INVARIANT Margins
CHECK_DEADLOCK FALSE
