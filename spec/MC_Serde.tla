----------------------------- MODULE MC_Serde -----------------------------
(* Toy curve: round trip for every value of every type; every short wire string is accepted iff length and payload are valid. *)
EXTENDS Serde, Params, TLC
VARIABLES ty, p, extra
Types == (TupleTypes \cup BytesTypes) \ {"sig"}
Init == ty \in Types /\ p \in Bytes(LEN) /\ extra \in {<<>>, <<0>>, <<7, 9>>}
Next == UNCHANGED <<ty, p, extra>>
RoundTrip ==
  NativeValid(ty, p) =>
    /\ DeBin(ty, SerBin(ty, p), TRUE) = <<TRUE, Canon(ty, p)>>
    /\ DeBin(ty, SerBin(ty, p), FALSE) = <<TRUE, Canon(ty, p)>>
    /\ DeJson(ty, SerJson(ty, p)) = <<TRUE, Canon(ty, p)>>
    /\ Canon(ty, Canon(ty, p)) = Canon(ty, p) /\ NativeValid(ty, Canon(ty, p))
Validates ==
  LET wire == (IF ty \in BytesTypes THEN Len8(Len(p)) \o p ELSE p) \o extra IN
  /\ DeBin(ty, wire, TRUE)[1] = (NativeValid(ty, p) /\ extra = <<>>)           \* over-long input rejected
  /\ DeBin(ty, wire, FALSE)[1] = NativeValid(ty, p)
  /\ DeJson(ty, p \o extra)[1] = (NativeValid(ty, p) /\ extra = <<>>)
  /\ ~DeJson(ty, <<>>)[1] /\ ~DeBin(ty, <<>>, FALSE)[1]                          \* short input rejected
  /\ (ty \in BytesTypes => ~DeBin(ty, Len8(Len(p) + 1) \o p \o <<1>>, FALSE)[1])  \* wrong length prefix
Inv == RoundTrip /\ Validates
=============================================================================
