CONSTANTS
  NEGBITS = 56
  MUTANT = "none"
INIT Init
NEXT Next
INVARIANT PreconditionsHold
INVARIANT TypeInv
INVARIANT Margins
INVARIANT CurrentTree
CHECK_DEADLOCK FALSE
