CONSTANTS
  LEN = 1
  P <- P_29
  D <- D_29
  L <- L_29
  BASE <- BASE_29
  T8ENC <- T8ENC_29
  SQRT_M1 <- SQRT_M1_29
  EXP_P58 <- EXP_P58_29
  EXP_QR <- EXP_QR_29
  EXP_P38 <- EXP_P38_29
  BASEPT <- BASEPT_29
  T8PT <- T8PT_29
  D2 <- D2_29
  SQRT_AD_MINUS_ONE <- SQRT_AD_MINUS_ONE_29
  INVSQRT_A_MINUS_D <- INVSQRT_A_MINUS_D_29
  ONE_MINUS_D_SQ <- ONE_MINUS_D_SQ_29
  D_MINUS_ONE_SQ <- D_MINUS_ONE_SQ_29
  MONT_A <- MONT_A_29
  APLUS2_OVER_FOUR <- APLUS2_OVER_FOUR_29
  MAXSTEPS = 3
  SECRETS <- SecretsSmall
  INJECT <- InjectAll
INIT Init
NEXT Next
INVARIANT Inv
INVARIANT Agreement
INVARIANT AliasFree
INVARIANT DeadOK
VIEW View
CHECK_DEADLOCK FALSE
