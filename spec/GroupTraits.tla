---------------------------- MODULE GroupTraits ----------------------------
(***************************************************************************)
(* The ff / group trait laws (C17): the scalar field as a prime field with *)
(* its advertised constants, and the group encodings / cofactor API.       *)
(***************************************************************************)
EXTENDS Ristretto

LM1 == BSub(L, One(LEN), LEN)
ScIsQR(a) == BIsZero(a) \/ ScPow(a, BDiv(LM1, BN(2, LEN), LEN)) = S1
\* sqrt: Some(r) exactly for residues, with r^2 = a (either root is a correct answer)
SqrtOK(a, ok, r) == ok = ScIsQR(a) /\ (ok => ScMul(r, r) = a)
\* sqrt_ratio(num, div) per the ff documentation, with the generator as the non-residue multiplier
TwoAdicity == 2                                       \* l - 1 = 2^2 * t, t odd
TOdd == BDiv(LM1, BN(4, LEN), LEN)
ConstantsOK(c) ==                                     \* c: the record the driver reads from the trait constants
  /\ c.modulus_bytes = L
  /\ c.s = TwoAdicity /\ BMod(LM1, BN(4, LEN)) = Zero(LEN) /\ TOdd[1] % 2 = 1
  /\ ScMul(c.two_inv, BN(2, LEN)) = S1
  /\ c.generator = BN(2, LEN) /\ ~ScIsQR(c.generator)                         \* 2 is a quadratic non-residue
  /\ c.root = ScPow(c.generator, TOdd)                                          \* 2^S-th root of unity
  /\ ScPow(c.root, BN(4, LEN)) = S1 /\ ScPow(c.root, BN(2, LEN)) # S1           \* of exact order 2^S
  /\ ScMul(c.root, c.root_inv) = S1
  /\ c.delta = ScPow(c.generator, BN(4, LEN))                                   \* generator^(2^S)
  /\ c.zero = S0 /\ c.one = S1
  /\ c.num_bits = BitLen(L) /\ c.capacity = BitLen(L) - 1
=============================================================================
