---------------------------- MODULE MC_Field ----------------------------
(* Exhaustive check of Field.tla on a toy field: all pairs of LEN-byte strings. *)
EXTENDS Field, Params, TLC
VARIABLES x, y, ph
Init == x \in Bytes(LEN) /\ y = x /\ ph = 0
Next == ph = 0 /\ ph' = 1 /\ y' \in Bytes(LEN) /\ UNCHANGED x

a == FromBytes(x)
b == FromBytes(y)

DecodeOK ==
  /\ IsCanonical(a)
  /\ Val(a) = (Val(x) % 128) % Val(P)                   \* top bit ignored, value reduced
  /\ FromBytes(SetTop(x, 1)) = FromBytes(SetTop(x, 0))
  /\ TopBit(FToBytes(a)) = 0
ArithOK ==
  /\ Val(FAdd(a, b)) = (Val(a) + Val(b)) % Val(P)
  /\ Val(FSub(a, b)) = (Val(a) + Val(P) - Val(b)) % Val(P)
  /\ Val(FMul(a, b)) = (Val(a) * Val(b)) % Val(P)
  /\ Val(FNeg(a)) = (Val(P) - Val(a)) % Val(P)
  /\ FSq(a) = FMul(a, a) /\ FSq2(a) = FMul(FN(2), FSq(a))
  /\ FPow2k(a, 3) = FSq(FSq(FSq(a)))
  /\ (FIsZero(a) => FInv(a) = F0)
  /\ (~FIsZero(a) => FMul(a, FInv(a)) = F1)
  /\ FInv(a) = FPow(a, BSub(P, BN(2, LEN), LEN))
  /\ BatchInvert(<<a, b, a>>) = <<FInv(a), FInv(b), FInv(a)>>
  /\ BatchInvert(<<>>) = <<>>
SqrtOK ==
  LET d == SqrtRatioDecl(a, b)
      s == SqrtRatio(a, b)
      g == SqrtRatioAlg(a, b)
  IN /\ d = s /\ d = g
     /\ ~FIsNeg(d[2])
     /\ (d[1] /\ ~FIsZero(b) => FMul(FSq(d[2]), b) = a)
     /\ (~d[1] /\ ~FIsZero(b) /\ ~FIsZero(a) => FMul(FSq(d[2]), b) = FMul(SQRT_M1, a))
ConstOK ==
  /\ FSq(SQRT_M1) = FMinusOne /\ ~FIsNeg(SQRT_M1)
  /\ Val(P) % 8 = 5
Inv == DecodeOK /\ ArithOK /\ SqrtOK /\ ConstOK
=============================================================================
