CONSTANTS
  NEGBITS = 56
  MUTANT = "double_negate_sum"
INIT Init
NEXT Next
INVARIANT PreconditionsHold
INVARIANT TypeInv
INVARIANT Margins
CHECK_DEADLOCK FALSE
