CONSTANTS
  LEN = 1
  P <- P_29
  D <- D_29
  L <- L_29
  BASE <- BASE_29
  T8ENC <- T8_29
INIT Init
NEXT Next
INVARIANT Inv
CHECK_DEADLOCK FALSE
