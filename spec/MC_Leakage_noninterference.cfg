INIT Init
NEXT Next
INVARIANT NonInterference
CHECK_DEADLOCK FALSE
