CONSTANTS
  MUTANT = "none"
INIT Init
NEXT Next
INVARIANT PreconditionsHold
INVARIANT DoubleBookkeeping
CHECK_DEADLOCK FALSE
