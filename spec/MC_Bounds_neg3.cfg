CONSTANTS
  BACKEND = "u32"
  MUTANT = "niels_lazy_double"
INIT Init
NEXT Next
INVARIANT NoViolation
INVARIANT TypeInv
CHECK_DEADLOCK FALSE
