---------------------------- MODULE TraceScalar ----------------------------
(***************************************************************************)
(* Trace specification for the scalar layer (C02) and the digit recodings  *)
(* (C04, first half).  Events carry the bytes held by the input scalars.   *)
(***************************************************************************)
EXTENDS Scalar, Recode, TraceBase

ScalarOps == {"sc.from_bytes_mod_order", "sc.from_bytes_mod_order_wide", "sc.from_canonical_bytes",
              "sc.from_bits", "sc.hash_from_bytes", "sc.from_hash", "sc.from_uint", "sc.clamp_integer",
              "sc.add", "sc.sub", "sc.mul", "sc.add_assign", "sc.sub_assign", "sc.mul_assign",
              "sc.add_owned", "sc.sub_owned", "sc.mul_owned", "sc.neg", "sc.neg_owned", "sc.invert",
              "sc.reencode", "sc.sum", "sc.product", "sc.batch_invert", "sc.eq", "sc.cond_select",
              "sc.as_radix_16", "sc.as_radix_2w", "sc.non_adjacent_form"}
IsScalarOp(op) == op \in ScalarOps

ScalarJudge(e) ==
  LET o == e.obs IN
  IF ~NoPanic(e) THEN <<FALSE, "panic">>
  ELSE IF e.op \in {"sc.from_bytes_mod_order", "sc.from_bytes_mod_order_wide"} THEN
       LET x == ScReduce(e.in[1]) IN <<o.r = x, x>>
  ELSE IF e.op = "sc.from_canonical_bytes" THEN
       LET x == ScFromCanonical(e.in[1])
       IN <<o.ok = x[1] /\ (x[1] => o.r = x[2]), x>>
  ELSE IF e.op = "sc.from_bits" THEN
       LET x == ClearTop(e.in[1]) IN <<o.r = x, x>>
  ELSE IF e.op \in {"sc.hash_from_bytes", "sc.from_hash"} THEN
       LET x == ScFromHash(e.in[1]) IN <<o.r = x, x>>
  ELSE IF e.op = "sc.from_uint" THEN
       LET x == Resize(e.in[1], LEN) IN <<o.r = x, x>>
  ELSE IF e.op = "sc.clamp_integer" THEN
       LET x == Clamp(e.in[1]) IN <<o.r = x, x>>
  ELSE IF e.op \in {"sc.add", "sc.add_assign", "sc.add_owned"} THEN
       LET x == ScAdd(o.a, o.b) IN <<o.r = x, x>>
  ELSE IF e.op \in {"sc.sub", "sc.sub_assign", "sc.sub_owned"} THEN
       LET x == ScSub(o.a, o.b) IN <<o.r = x, x>>
  ELSE IF e.op \in {"sc.mul", "sc.mul_assign", "sc.mul_owned"} THEN
       LET x == ScMul(o.a, o.b) IN <<o.r = x, x>>
  ELSE IF e.op \in {"sc.neg", "sc.neg_owned"} THEN
       LET x == ScNeg(o.a) IN <<o.r = x, x>>
  ELSE IF e.op = "sc.invert" THEN
       LET x == ScInvert(o.a) IN <<BIsZero(ScReduce(o.a)) \/ o.r = x, x>>
  ELSE IF e.op = "sc.reencode" THEN <<o.r = o.a, o.a>>
  ELSE IF e.op = "sc.sum" THEN
       LET x == ScSum(o.as, 1) IN <<o.r = x, x>>
  ELSE IF e.op = "sc.product" THEN
       LET x == ScProd(o.as, 1) IN <<o.r = x, x>>
  ELSE IF e.op = "sc.batch_invert" THEN
       LET x == ScBatchInvert(o.as)
       IN <<(\E i \in 1..Len(o.as) : BIsZero(ScReduce(o.as[i]))) \/ (o.rs = x[1] /\ o.r = x[2]), x>>
  ELSE IF e.op = "sc.eq" THEN
       LET x == o.a = o.b IN <<o.ok = x /\ o.ct = x, x>>
  ELSE IF e.op = "sc.cond_select" THEN
       LET x == IF e.c THEN o.b ELSE o.a IN <<o.r = x, x>>
  ELSE IF e.op = "sc.as_radix_16" THEN
       LET x == Radix16(o.a) IN <<o.digits = x, x>>
  ELSE IF e.op = "sc.as_radix_2w" THEN
       LET x == Radix2w(o.a, e.w) IN <<o.digits = x /\ o.hint = Radix2wSizeHint(e.w), x>>
  ELSE IF e.op = "sc.non_adjacent_form" THEN
       LET x == NAF(o.a, e.w) IN <<o.digits = x, x>>
  ELSE <<FALSE, "unknown scalar op">>

ScalarStep ==
  /\ l <= Len(Rec)
  /\ IsScalarOp(Rec[l].op)
  /\ LET e == Rec[l]
         j == ScalarJudge(e)
     IN Note(j[1], e, j[2])
  /\ l' = l + 1
  /\ UNCHANGED regs
=============================================================================
