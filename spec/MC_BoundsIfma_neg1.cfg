CONSTANTS
  NEGBITS = 56
  MUTANT = "double_skip_reduce"
INIT Init
NEXT Next
INVARIANT PreconditionsHold
INVARIANT TypeInv
INVARIANT Margins
CHECK_DEADLOCK FALSE
