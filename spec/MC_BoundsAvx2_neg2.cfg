CONSTANTS
  MUTANT = "double_negate_twice"
INIT Init
NEXT Next
INVARIANT PreconditionsHold
INVARIANT DoubleBookkeeping
CHECK_DEADLOCK FALSE
