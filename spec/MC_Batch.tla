----------------------------- MODULE MC_Batch -----------------------------
(***************************************************************************)
(* The batch verification equation of ed25519-dalek/src/batch.rs over the  *)
(* toy group, with the random coefficients z universally quantified:       *)
(*   (-sum z_i S_i) B + sum z_i R_i + sum z_i k_i A_i  =  identity         *)
(* Entry 1 has secret a1, nonce r1, challenge k1 and SS1 = r1 + k1 a1 + e1  *)
(* (e1 # 0 is a forgery); entry 2 is honest.  With MIXED = TRUE entry 1    *)
(* carries torsion components t (in A) and t2 (in R): outside the          *)
(* precondition of C13, where TLC exhibits the disagreement.               *)
(***************************************************************************)
EXTENDS Ed25519, Params, TLC
CONSTANT MIXED
VARIABLES a1, r1, k1, e1, r2, k2, t, t2, ph
N == Val(L)
Z == 0..(N - 1)
Sc(n) == ToBytes(n % N, LEN)
Init == /\ a1 \in Z /\ r1 \in Z /\ k1 \in Z /\ e1 = 0 /\ r2 = 0 /\ k2 = 0 /\ t = 0 /\ t2 = 0 /\ ph = 0
Next == /\ ph = 0 /\ ph' = 1 /\ UNCHANGED <<a1, r1, k1>>
        /\ e1' \in Z /\ r2' \in (IF MIXED THEN {1} ELSE Z) /\ k2' \in (IF MIXED THEN {2} ELSE Z)
        /\ t' \in (IF MIXED THEN 0..7 ELSE {0}) /\ t2' \in (IF MIXED THEN 0..7 ELSE {0})
a2 == 3
A1 == PtAdd(SMul(Sc(a1), BasePt), Torsion(t))
A2 == SMul(Sc(a2), BasePt)
R1 == PtAdd(SMul(Sc(r1), BasePt), Torsion(t2))
R2 == SMul(Sc(r2), BasePt)
SS1 == (r1 + k1 * a1 + e1) % N
SS2 == (r2 + k2 * a2) % N
Single1 == PtSub(SMul(Sc(SS1), BasePt), SMul(Sc(k1), A1)) = R1       \* cofactorless, challenge reduced mod l first
Single2 == PtSub(SMul(Sc(SS2), BasePt), SMul(Sc(k2), A2)) = R2
BatchLHS(z1, z2) ==
  PtAdd(SMul(Sc(N * N - ((z1 * SS1 + z2 * SS2) % N)), BasePt),
        PtAdd(PtAdd(SMul(Sc(z1), R1), SMul(Sc(z2), R2)),
              PtAdd(SMul(Sc(z1 * k1), A1), SMul(Sc(z2 * k2), A2))))
BatchOK(z1, z2) == BatchLHS(z1, z2) = Identity
\* on the precondition (prime-order keys and R): Ok exactly when every entry verifies, up to the 1/l' soundness error
Inv == ph = 1 =>
       /\ Single2
       /\ Single1 = (e1 = 0)
       /\ (e1 = 0 => \A z1 \in Z, z2 \in Z : BatchOK(z1, z2))
       /\ (e1 # 0 => \A z1 \in Z, z2 \in Z : BatchOK(z1, z2) = (z1 = 0))
\* claimed for mixed-order input (MIXED = TRUE): "the batch verdict equals the single verdict for every
\* coefficient".  False: TLC keeps the counterexample (a torsion defect of order 2 or 4 is annihilated by an even z).
BatchMixed(z1, z2) ==
  PtAdd(SMul(Sc(N * N - ((z1 * SS1 + z2 * SS2) % N)), BasePt),
        PtAdd(PtAdd(SMul(ToBytes(z1, LEN), R1), SMul(Sc(z2), R2)),
              PtAdd(SMul(ToBytes(z1, LEN), SMul(Sc(k1), A1)), SMul(Sc(z2 * k2), A2)))) = Identity
MixedAgree == ph = 1 /\ e1 = 0 => \A z1 \in 1..8 : BatchMixed(z1, 1) = Single1
=============================================================================
