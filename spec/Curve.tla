------------------------------ MODULE Curve ------------------------------
(***************************************************************************)
(* Parameters of a twisted Edwards curve  -x^2 + y^2 = 1 + d x^2 y^2  over *)
(* GF(P), P = 5 (mod 8), d a non-square, group order 8*L with L prime and  *)
(* cyclic 8-torsion.  Field elements and scalars are LEN-byte little-      *)
(* endian strings; the field has 8*LEN-1 bits, bit 8*LEN-1 is the sign /   *)
(* "ignored" bit of the encodings.                                         *)
(*                                                                         *)
(*   LEN = 32, P = 2^255-19, D = -121665/121666, L = 2^252+277..493  is    *)
(*   Curve25519/edwards25519; LEN = 1 with (P,D,L) in {(29,27,5),          *)
(*   (53,3,7),(101,12,11),(109,11,13)} are the toy curves on which TLC     *)
(*   enumerates everything.                                                *)
(***************************************************************************)
EXTENDS BigNat, Naturals, Sequences, FiniteSets, SequencesExt

CONSTANTS LEN,    \* bytes per field element / scalar / point encoding
          P,      \* field prime (LEN bytes)
          D,      \* curve constant d (LEN bytes, canonical)
          L,      \* prime order of the base point (LEN bytes)
          BASE,   \* compressed encoding of the base point
          T8ENC,  \* compressed encoding of a point of exact order 8
          \* Derived constants.  TLC re-evaluates a definition that depends on a substituted
          \* constant at every use, so each derived constant is itself a CONSTANT bound to a
          \* literal (spec/Params.tla, generated) and ASSUMEd equal to its definition where
          \* the definition is stated (Field, Edwards, Montgomery, Ristretto).
          SQRT_M1, EXP_P58, EXP_QR, EXP_P38, BASEPT, T8PT, D2,
          SQRT_AD_MINUS_ONE, INVSQRT_A_MINUS_D, ONE_MINUS_D_SQ, D_MINUS_ONE_SQ, MONT_A, APLUS2_OVER_FOUR

NBITS == 8 * LEN            \* bits in an encoding
FBITS == 8 * LEN - 1        \* bits in a field element

Bytes(n) == [1..n -> 0..255]   \* all byte strings of length n (toy sizes only)

TopBit(b)   == b[Len(b)] \div 128
ClearTop(b) == [b EXCEPT ![Len(b)] = b[Len(b)] % 128]
SetTop(b, s) == [b EXCEPT ![Len(b)] = (b[Len(b)] % 128) + 128 * s]

=============================================================================
