--------------------------- MODULE ScalarMulAlg ---------------------------
(***************************************************************************)
(* Layer A: the scalar-multiplication algorithms of backend/*/scalar_mul,  *)
(* edwards.rs (basepoint tables) and their digit recodings, over abstract  *)
(* group elements (the coordinate formulas are EdwardsAlg's business).     *)
(* Parametric in the scalar length, so that TLC can run every algorithm    *)
(* on every point and scalar of a toy curve and compare with SMul / MSM.   *)
(***************************************************************************)
EXTENDS Edwards, Recode

\* ---- lookup tables ---------------------------------------------------------
Multiples(Q, n) ==        \* <<Q, 2Q, ..., nQ>>          (LookupTable::from)
  FoldLeft(LAMBDA t, j : Append(t, PtAdd(t[Len(t)], Q)), <<Q>>, [j \in 1..(n - 1) |-> j])
OddMultiples(Q, n) ==     \* <<Q, 3Q, 5Q, ..., (2n-1)Q>>  (NafLookupTable5/8::from)
  LET Q2 == PtDouble(Q) IN
  FoldLeft(LAMBDA t, j : Append(t, PtAdd(t[Len(t)], Q2)), <<Q>>, [j \in 1..(n - 1) |-> j])
\* LookupTable::select(x): x*Q for -n <= x <= n, by scanning |x| and a conditional negation
Select(tbl, x) == IF x = 0 THEN Identity ELSE IF x > 0 THEN tbl[x] ELSE PtNeg(tbl[-x])
\* NafLookupTable::select(x) for odd x > 0 is entry x/2; negative digits are subtracted by the caller
AddNaf(acc, tbl, d) == IF d = 0 THEN acc
                       ELSE IF d > 0 THEN PtAdd(acc, tbl[(d \div 2) + 1])
                       ELSE PtSub(acc, tbl[((-d) \div 2) + 1])
Down(n) == [j \in 1..n |-> n + 1 - j]                 \* n, n-1, ..., 1
Idx(seq) == [j \in 1..Len(seq) |-> j]

\* ---- variable base (constant time): radix 16, table of 8 ----------------------
VarBase(s, Q) ==
  LET d == Radix16(s)  n == Len(d)  tbl == Multiples(Q, 8) IN
  FoldLeft(LAMBDA acc, i : PtAdd(PtPow2(acc, 4), Select(tbl, d[i])), Select(tbl, d[n]), Down(n - 1))

\* ---- fixed base tables of radix 2^w: create / mul_base ---------------------------
NumTables(nbits, w) == (Radix2wSizeHintN(nbits, w) + 1) \div 2
TableCreate(B0, w, nt) ==
  [i \in 1..nt |-> Multiples(PtPow2(B0, 2 * w * (i - 1)), 2^(w - 1))]
TableBasepoint(tables) == PtAdd(Identity, Select(tables[1], 1))
TableMulBase(tables, s, w) ==
  LET a == Radix2w(s, w)
      adds == Radix2wSizeHintN(NBitsOf(s), w)
      odd == SelectSeq([i \in 1..adds |-> i - 1], LAMBDA i : i % 2 = 1)       \* 0-based odd positions
      even == SelectSeq([i \in 1..adds |-> i - 1], LAMBDA i : i % 2 = 0)
      p1 == FoldLeft(LAMBDA acc, i : PtAdd(acc, Select(tables[(i \div 2) + 1], a[i + 1])), Identity, odd)
      p2 == PtPow2(p1, w)
  IN FoldLeft(LAMBDA acc, i : PtAdd(acc, Select(tables[(i \div 2) + 1], a[i + 1])), p2, even)

\* ---- variable-time double base: NAF(5) for a, NAF(wb) for b (8 with tables, 5 without) ----
DoubleBase(a, A, b, B0, wb) ==
  LET na == NAF(a, 5)  nb == NAF(b, wb)
      ta == OddMultiples(A, 8)  tb == OddMultiples(B0, 2^(wb - 2))
  IN FoldLeft(LAMBDA acc, i : AddNaf(AddNaf(PtDouble(acc), ta, na[i]), tb, nb[i]), Identity, Down(Len(na)))

\* ---- Straus, constant time (radix 16) and variable time (NAF 5) -----------------------
StrausCT(ss, ps) ==
  IF Len(ss) = 0 THEN Identity ELSE
  LET ds == [i \in 1..Len(ss) |-> Radix16(ss[i])]
      ts == [i \in 1..Len(ps) |-> Multiples(ps[i], 8)]
      n == Len(ds[1])
  IN FoldLeft(LAMBDA acc, j :
                FoldLeft(LAMBDA q, i : PtAdd(q, Select(ts[i], ds[i][j])), PtPow2(acc, 4), Idx(ss)),
              Identity, Down(n))
StrausVT(ss, ps) ==
  IF Len(ss) = 0 THEN Identity ELSE
  LET ns == [i \in 1..Len(ss) |-> NAF(ss[i], 5)]
      ts == [i \in 1..Len(ps) |-> OddMultiples(ps[i], 8)]
      n == Len(ns[1])
  IN FoldLeft(LAMBDA acc, j :
                FoldLeft(LAMBDA q, i : AddNaf(q, ts[i], ns[i][j]), PtDouble(acc), Idx(ss)),
              Identity, Down(n))

\* ---- Pippenger: radix 2^w digits, 2^(w-1) buckets, running sums ----------------------------
PippengerW(size) == IF size < 500 THEN 6 ELSE IF size < 800 THEN 7 ELSE 8
Column(ds, ps, j, bc) ==
  LET buckets == FoldLeft(LAMBDA bk, i :
                   LET d == ds[i][j] IN
                   IF d > 0 THEN [bk EXCEPT ![d] = PtAdd(bk[d], ps[i])]
                   ELSE IF d < 0 THEN [bk EXCEPT ![-d] = PtSub(bk[-d], ps[i])]
                   ELSE bk,
                 [k \in 1..bc |-> Identity], Idx(ps))
      \* <<intermediate sum, sum>> from the last bucket down to the first
      r == FoldLeft(LAMBDA st, k : LET im == PtAdd(st[1], buckets[k]) IN <<im, PtAdd(st[2], im)>>,
                    <<buckets[bc], buckets[bc]>>, Down(bc - 1))
  IN r[2]
Pippenger(ss, ps, w) ==
  LET ds == [i \in 1..Len(ss) |-> Radix2w(ss[i], w)]
      count == Radix2wSizeHintN(NBitsOf(ss[1]), w)
      bc == 2^(w - 1)
  IN FoldLeft(LAMBDA total, j : PtAdd(PtPow2(total, w), Column(ds, ps, j, bc)),
              Column(ds, ps, count, bc), Down(count - 1))
=============================================================================
