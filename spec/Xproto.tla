------------------------------- MODULE Xproto -------------------------------
(***************************************************************************)
(* Layer S for x25519-dalek: a key-agreement SESSION as a state machine.   *)
(* Two parties hold typed secrets (EphemeralSecret is consumed by its one  *)
(* Diffie-Hellman, ReusableSecret / StaticSecret live on), public keys     *)
(* travel over wire slots that an adversary may overwrite with ANY byte    *)
(* string, re-encode non-canonically (u + p, top bit set) or replay.       *)
(* The transitions are pure functions on a state record, so that the very  *)
(* same operators drive the exhaustive toy model (MC_Xproto), the          *)
(* behaviours exported for replay (spec -> code) and the full-size trace   *)
(* specification (TraceX, code -> spec), which keeps the record in the     *)
(* specification's register file.                                          *)
(***************************************************************************)
EXTENDS Montgomery

XParties == {"A", "B"}
XSlots == {"W1", "W2"}
XKinds == {"ephemeral", "reusable", "static", "ed"}
\* kind "ed": an Ed25519 signing key used for key agreement, the documented interoperation path - the secret is
\* StaticSecret::from(SigningKey::to_scalar_bytes()) (the UNclamped first half of SHA-512(seed)), the public key is
\* VerifyingKey::to_montgomery(); the two must describe the same X25519 key pair
XKey(kind, k) == IF kind = "ed" THEN SubSeq(SHA512(k), 1, LEN) ELSE k

XNoSecret == [kind |-> "none", k |-> <<>>, seed |-> <<>>, live |-> FALSE]
XNoWire == [u |-> <<>>, from |-> "none", fk |-> <<>>]
XNoDH == [p |-> "none", w |-> "none", ss |-> <<>>, contributory |-> FALSE, peer |-> XNoWire, k |-> <<>>]
XInitState == [sk |-> [p \in XParties |-> XNoSecret], wire |-> [w \in XSlots |-> XNoWire], last |-> XNoDH]

\* what PublicKey::from(&secret) is: the u-coordinate of clamp(k) * B, canonical
XPub(k) == ToMontgomery(SMul(Clamp(k), BasePt))

\* A clamped scalar that is a multiple of the odd prime order of the curve or of its twist sends points that do NOT have
\* small order to zero.  It happens on the toy curves (prime orders 5, 11, 13 ...), never at full size: clamp(k) = 8 m with
\* 2^251 <= m < 2^252, and both prime orders (l on the curve, 2^253 - 5548..3203 on the twist) exceed 2^252; the ASSUME is
\* that argument for the instantiated l.
XDegenerate(k) == IF LEN = 32 THEN FALSE
                  ELSE \E v \in FieldSet : ~BIsZero(MulBitsBE(<<1, 0, 0, 0>>, v)) /\ BIsZero(RfcLadder(Clamp(k), v))
ASSUME LEN = 32 => BLt(BShl(One(LEN), 252, LEN), L)

\* ---- transitions (each is one public call of x25519-dalek, or one move of the adversary) -----------------------
XNewEnabled(st, p) == TRUE                              \* a new secret replaces (drops) the old one
XNew(st, p, kind, k) == [st EXCEPT !.sk[p] = [kind |-> kind, k |-> XKey(kind, k), seed |-> k, live |-> TRUE]]

XPublishEnabled(st, p) == st.sk[p].live
XPublish(st, p, w) == [st EXCEPT !.wire[w] = [u |-> XPub(st.sk[p].k), from |-> p, fk |-> st.sk[p].k]]

\* the adversary writes arbitrary bytes
XInject(st, w, u) == [st EXCEPT !.wire[w] = [u |-> u, from |-> "adv", fk |-> <<>>]]
\* the adversary re-encodes what is on the wire: same field element, other bytes (origin unchanged: it IS the same key)
XAliasBytes(u, addp, top) ==
  LET a == BAdd(FromBytes(u), P, LEN + 1)
      v == IF addp /\ a[LEN + 1] = 0 /\ a[LEN] < 128 THEN SubSeq(a, 1, LEN) ELSE IF addp THEN FromBytes(u) ELSE ClearTop(u)
  IN SetTop(v, top)
XAliasEnabled(st, w) == st.wire[w].from # "none"
XAlias(st, w, addp, top) == [st EXCEPT !.wire[w].u = XAliasBytes(st.wire[w].u, addp, top)]
\* the adversary copies one slot onto another (replay / reflection)
XCopyEnabled(st, w) == st.wire[w].from # "none"
XCopy(st, w, w2) == [st EXCEPT !.wire[w2] = st.wire[w]]

XDHEnabled(st, p, w) == st.sk[p].live /\ st.wire[w].from # "none"
XShared(k, u) == X25519(k, u)
XDH(st, p, w) ==
  LET ss == XShared(st.sk[p].k, st.wire[w].u) IN
  [st EXCEPT !.sk[p].live = (st.sk[p].kind # "ephemeral"),          \* EphemeralSecret::diffie_hellman takes self
             !.last = [p |-> p, w |-> w, ss |-> ss, contributory |-> ~BIsZero(ss), peer |-> st.wire[w], k |-> st.sk[p].k]]

XDropEnabled(st, p) == st.sk[p].kind # "none"
XDrop(st, p) == [st EXCEPT !.sk[p] = XNoSecret]

\* ---- what a user relies on (state predicates over the record) ------------------------------------------------
\* u has small order on the curve or on its twist: the cofactor kills it
XSmallOrderU(u) == BIsZero(MulBitsBE(<<1, 0, 0, 0>>, DecodeU(u)))            \* [8]u = 0
\* the last shared secret is the RFC 7748 function of the holder's bytes and the wire bytes, canonical, and
\* (a) when the wire carries an honest key (however re-encoded) it is what the peer derives from OUR public key: agreement
\* (b) it is "contributory" exactly when the peer's point does not have small order
XLastOK(st) ==
  LET d == st.last IN
  d.p # "none" =>
    /\ IsCanonical(d.ss)
    /\ d.ss = RfcLadder(Clamp(d.k), DecodeU(d.peer.u))
    /\ (d.peer.from \in XParties => d.ss = XShared(d.peer.fk, XPub(d.k)))
    /\ (d.peer.from \in XParties => d.ss = ToMontgomery(SMul(Clamp(d.k), SMul(Clamp(d.peer.fk), BasePt))))
    /\ d.contributory = ~BIsZero(d.ss)
    /\ (XSmallOrderU(d.peer.u) => ~d.contributory)                          \* a small-order peer never contributes
    /\ (~XDegenerate(d.k) => (d.contributory = ~XSmallOrderU(d.peer.u)))    \* and nothing else is refused
    /\ ((d.peer.from \in XParties /\ ~XDegenerate(d.k) /\ ~XDegenerate(d.peer.fk)) => d.contributory)   \* honest keys are never small order
\* every honest wire entry is the canonical encoding of a point of the prime-order subgroup, up to the adversary's re-encoding
XWireOK(st) ==
  \A w \in XSlots : st.wire[w].from \in XParties =>
     /\ DecodeU(st.wire[w].u) = XPub(st.wire[w].fk)
     /\ (~XDegenerate(st.wire[w].fk) => ~XSmallOrderU(st.wire[w].u))
\* a consumed ephemeral secret is dead; nothing else dies by itself
XLifeOK(st) == \A p \in XParties : (st.sk[p].kind = "none") => ~st.sk[p].live
=============================================================================
