----------------------------- MODULE Edwards -----------------------------
(***************************************************************************)
(* Layer D: the twisted Edwards curve -x^2 + y^2 = 1 + d x^2 y^2, its      *)
(* affine group law, encodings and predicates.  A point is <<x, y>>.       *)
(***************************************************************************)
EXTENDS Scalar

Identity == <<F0, F1>>
OnCurve(p) == FSub(FSq(p[2]), FSq(p[1])) = FAdd(F1, FMul(D, FMul(FSq(p[1]), FSq(p[2]))))

\* the complete affine addition law (a = -1)
PtAdd(p, q) ==
  LET x1 == p[1]  y1 == p[2]  x2 == q[1]  y2 == q[2]
      t == FMul(D, FMul(FMul(x1, x2), FMul(y1, y2)))
  IN << FMul(FAdd(FMul(x1, y2), FMul(x2, y1)), FInv(FAdd(F1, t))),
        FMul(FAdd(FMul(y1, y2), FMul(x1, x2)), FInv(FSub(F1, t))) >>
PtNeg(p) == <<FNeg(p[1]), p[2]>>
PtSub(p, q) == PtAdd(p, PtNeg(q))
PtDouble(p) == PtAdd(p, p)
PtPow2(p, k) == FoldLeft(LAMBDA acc, j : PtDouble(acc), p, [j \in 1..k |-> j])

\* [k]p by double-and-add over the bits of the byte string k, most significant first
\* (loops are folds: TLC does not cache the arguments of RECURSIVE operators)
SMul(k, p) ==
  LET n == BitLen(k) IN
  FoldLeft(LAMBDA acc, j : LET d == PtDouble(acc) IN IF BBit(k, n - j) = 1 THEN PtAdd(d, p) ELSE d,
           Identity, [j \in 1..n |-> j])

PtSum(ps, i) == FoldLeft(LAMBDA acc, q : PtAdd(acc, q), Identity, SubSeq(ps, i, Len(ps)))
\* sum of s_i * P_i   (ss may be shorter than ps: the unused points are ignored)
MSM(ss, ps, i) == FoldLeft(LAMBDA acc, j : PtAdd(acc, SMul(ss[j], ps[j])), Identity, [j \in 1..(Len(ss) - i + 1) |-> j + i - 1])

\* the same sum with shared doublings (Horner over the bit positions); equal to MSM by the
\* group laws, checked against MSM on the toy curves (MC_ScalarMul), and much cheaper for large n
MaxBitLen(ss) == FoldLeft(LAMBDA m, s : IF BitLen(s) > m THEN BitLen(s) ELSE m, 0, ss)
MSMJoint(ss, ps) ==
  LET n == MaxBitLen(ss)  idx == [i \in 1..Len(ss) |-> i] IN
  FoldLeft(LAMBDA acc, j :
             FoldLeft(LAMBDA a, i : IF BBit(ss[i], n - j) = 1 THEN PtAdd(a, ps[i]) ELSE a, PtDouble(acc), idx),
           Identity, [j \in 1..n |-> j])

\* ---- encodings ---------------------------------------------------------------
Compress(p) == SetTop(p[2], IF FIsNeg(p[1]) THEN 1 ELSE 0)
\* <<ok, point>>: y = low bits reduced; accepted iff (y^2-1)/(d y^2+1) is a square;
\* x is the root with the requested sign (for x = 0 the sign bit is ignored)
Decompress(b) ==
  LET y == FromBytes(b)
      yy == FSq(y)
      r == SqrtRatio(FSub(yy, F1), FAdd(FMul(D, yy), F1))
      x == IF (TopBit(b) = 1) THEN FNeg(r[2]) ELSE r[2]
  IN IF r[1] THEN <<TRUE, <<x, y>>>> ELSE <<FALSE, Identity>>
DecompressPt(b) == Decompress(b)[2]

BasePt == BASEPT
T8Pt == T8PT
ASSUME BASEPT = DecompressPt(BASE) /\ Decompress(BASE)[1]
ASSUME T8PT = DecompressPt(T8ENC) /\ Decompress(T8ENC)[1]
Torsion(i) == SMul(BN(i % 8, 1), T8Pt)                 \* the eight points of E[8]

\* ---- predicates -----------------------------------------------------------------
IsIdentity(p) == p = Identity
MulByCofactor(p) == PtPow2(p, 3)
IsSmallOrder(p) == MulByCofactor(p) = Identity
IsTorsionFree(p) == SMul(L, p) = Identity

\* ---- toy-size enumerations (LEN = 1) ----------------------------------------------
CurvePoints == {p \in FieldSet \X FieldSet : OnCurve(p)}
=============================================================================
