INIT Init
NEXT Next
INVARIANT LeakySelect
CHECK_DEADLOCK FALSE
