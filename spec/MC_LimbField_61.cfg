CONSTANTS
  R = 3
  N = 2
  C = 3
  H = 2
  WB = 10
  BSET = "ALL"
INIT Init
NEXT Next
INVARIANT Inv0
INVARIANT Inv1
CHECK_DEADLOCK FALSE
