CONSTANTS NB = 2
INIT Init
NEXT Next
INVARIANT Inv
CHECK_DEADLOCK FALSE
