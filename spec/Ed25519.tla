------------------------------ MODULE Ed25519 ------------------------------
(***************************************************************************)
(* Ed25519 and Ed25519ph per RFC 8032 section 5.1, and dalek's documented  *)
(* verification rules.  SHA-512 is the uninterpreted operator of Hash.tla. *)
(* A signature is the 2*LEN bytes R || S.                                  *)
(***************************************************************************)
EXTENDS Edwards

Dom2Prefix == <<83, 105, 103, 69, 100, 50, 53, 53, 49, 57, 32, 110, 111, 32, 69, 100, 50, 53, 53, 49, 57,
                32, 99, 111, 108, 108, 105, 115, 105, 111, 110, 115>>      \* "SigEd25519 no Ed25519 collisions"
\* dom2(1, ctx) for Ed25519ph; the empty string for pure Ed25519 (ph = FALSE)
Dom(ph, ctx) == IF ph THEN Dom2Prefix \o <<1, Len(ctx)>> \o ctx ELSE <<>>
PH(ph, m) == IF ph THEN SHA512(m) ELSE m

\* ---- key expansion (RFC 8032 5.1.5) ------------------------------------------------------
ExpandScalar(h) == Clamp(SubSeq(h, 1, LEN))                 \* the clamped integer a (unreduced)
ExpandPrefix(h) == SubSeq(h, LEN + 1, 2 * LEN)
PublicFromExpanded(h) == Compress(SMul(ExpandScalar(h), BasePt))
PublicKey(seed) == PublicFromExpanded(SHA512(seed))

\* ---- signing (5.1.6), from the 64-byte expanded key h and the public key bytes A ----------------
SignExpanded(h, A, ph, ctx, m) ==
  LET a == ScReduce(ExpandScalar(h))
      r == ScReduce(SHA512(Dom(ph, ctx) \o ExpandPrefix(h) \o PH(ph, m)))
      R == Compress(SMul(r, BasePt))
      k == ScReduce(SHA512(Dom(ph, ctx) \o R \o A \o PH(ph, m)))
      S == ScAdd(r, ScMul(k, a))
  IN R \o S
Sign(seed, ph, ctx, m) == SignExpanded(SHA512(seed), PublicKey(seed), ph, ctx, m)

\* ---- verification: dalek's documented acceptance set -------------------------------------------
SigR(sig) == SubSeq(sig, 1, LEN)
SigS(sig) == SubSeq(sig, LEN + 1, 2 * LEN)
\* the range rule on S: canonical, or (legacy_compatibility) only the top three bits clear
SOk(S, legacy) == IF legacy THEN S[LEN] \div 32 = 0 ELSE BLt(S, L)
Challenge(ph, ctx, R, A, m) == ScReduce(SHA512(Dom(ph, ctx) \o R \o A \o PH(ph, m)))
\* the algebraic core with an explicit challenge k (used with an abstract hash on the toy curves)
AcceptsK(A, k, sig, legacy) ==
  /\ SOk(SigS(sig), legacy)
  /\ Decompress(A)[1]
  /\ Compress(PtSub(SMul(SigS(sig), BasePt), SMul(k, DecompressPt(A)))) = SigR(sig)
StrictExtra(A, sig) ==
  /\ Decompress(SigR(sig))[1]
  /\ ~IsSmallOrder(DecompressPt(SigR(sig)))
  /\ ~IsSmallOrder(DecompressPt(A))
VerifyAccepts(A, ph, ctx, m, sig, legacy) ==
  /\ Decompress(A)[1] /\ SOk(SigS(sig), legacy)
  /\ AcceptsK(A, Challenge(ph, ctx, SigR(sig), A, m), sig, legacy)
StrictAccepts(A, ph, ctx, m, sig, legacy) ==
  /\ Decompress(A)[1] /\ SOk(SigS(sig), legacy)
  /\ StrictExtra(A, sig)
  /\ AcceptsK(A, Challenge(ph, ctx, SigR(sig), A, m), sig, legacy)

\* ---- batch verification (C13): specified on its precondition only -----------------------------
\* entries: sequence of [A, m, sig].  Err cases are specified for every input.
BatchMustErr(entries) == \E i \in 1..Len(entries) :
                           \/ ~SOk(SigS(entries[i].sig), FALSE)
                           \/ ~Decompress(SigR(entries[i].sig))[1]
\* precondition of the equivalence: keys and R are canonical encodings of prime-order points
PrimeOrderEnc(b) == Decompress(b)[1] /\ Compress(DecompressPt(b)) = b /\ IsTorsionFree(DecompressPt(b))
BatchInDomain(entries) == \A i \in 1..Len(entries) : PrimeOrderEnc(entries[i].A) /\ PrimeOrderEnc(SigR(entries[i].sig))
BatchAllValid(entries) == \A i \in 1..Len(entries) : VerifyAccepts(entries[i].A, FALSE, <<>>, entries[i].m, entries[i].sig, FALSE)
=============================================================================
