---------------------------- MODULE MC_BoundsIfma ----------------------------
EXTENDS BoundsIfma
IF_ == INSTANCE IfmaField
\* the configuration that speaks for the current tree uses the constant of the limb-exact kernel model, which trace validation
\* compares with the code's negate_lazy limb by limb
CurrentTree == NEGBITS = IF_!NEGBITS
=============================================================================
