------------------------------ MODULE Leakage ------------------------------
(***************************************************************************)
(* Layer I for C10: what an attacker who sees the instruction sequence and *)
(* the data addresses can observe.  A run is abstracted to the SEQUENCE OF *)
(* OBSERVATIONS it emits: <<"br", b>> for a conditional branch taken / not *)
(* taken and <<"addr", i>> for a table index used as an address.  The      *)
(* property is 2-safety: for equal public inputs, any two secrets give the *)
(* same observation sequence (self-composition).  The mechanisms named in  *)
(* the anchors are modelled as step machines at toy size; each has a       *)
(* leaky counterpart that TLC must reject (kept counterexamples).          *)
(* The secrecy POLICY (which operations are constant-time) is data here    *)
(* and is what the trace specification applies to the memcheck events.     *)
(***************************************************************************)
EXTENDS Integers, Sequences, FiniteSets, TLC

\* ---- policy ------------------------------------------------------------------------------
\* operations documented as variable-time carry the prefix "vt."; everything else the driver measures is constant-time
VartimeTargets == {"vt.ed.vartime_multiscalar_mul", "vt.ed.vartime_double_scalar_mul_basepoint"}
IsVartime(target) == target \in VartimeTargets

\* ---- mechanism 1: LookupTable::select scans every entry -----------------------------------
\* secret digit x in -8..8, table of 8; constant-time: compare against every j, conditional assign (no branch, no index)
SelectCT(x) == [j \in 1..8 |-> <<"touch", j>>]                      \* all entries read, in order, whatever x is
SelectLeaky(x) == IF x = 0 THEN <<>> ELSE <<<<"addr", IF x < 0 THEN -x ELSE x>>>>     \* direct index

\* ---- mechanism 2: radix-16 recoding is branch-free ------------------------------------------
\* the carry is computed arithmetically from the nibble; nothing is observed
RecodeCT(nibbles) == <<>>
\* NAF recoding (variable-time by design): branches on the parity of the window
NafObs(bits) == [i \in 1..Len(bits) |-> <<"br", bits[i] % 2>>]

\* ---- mechanism 3: the ladder's conditional swap -----------------------------------------------
\* for each scalar bit: swap by masking (no observation), then the same differential step
LadderCT(bits) == [i \in 1..Len(bits) |-> <<"step">>]
LadderLeaky(bits) == [i \in 1..Len(bits) |-> <<"br", bits[i]>>]       \* if bit { swap }

\* ---- mechanism 4: scalar subtraction, masked add-back of l -------------------------------------
\* borrow turned into a mask; l & mask is always added
SubCT(a, b) == <<<<"addback">>>>
SubLeaky(a, b) == IF a < b THEN <<<<"br", 1>>, <<"addback">>>> ELSE <<<<"br", 0>>>>   \* RUSTSEC-2024-0344 shape

\* ---- mechanism 5: conditional negate / sqrt sign fix-up ------------------------------------------
CondNegCT(c) == <<<<"select">>>>
CondNegLeaky(c) == IF c THEN <<<<"br", 1>>, <<"neg">>>> ELSE <<<<"br", 0>>>>

\* ---- mechanism 6: sqrt_ratio_i evaluates every case ------------------------------------------------
\* v = 0, u/v square, u/v non-square: the exponentiation, the three comparisons and both conditional fix-ups always run
SqrtRatioCT(u, v) == <<<<"pow">>, <<"cmp">>, <<"cmp">>, <<"cmp">>, <<"select">>, <<"select">>>>
SqrtRatioLeaky(u, v) == IF v = 0 THEN <<<<"br", 1>>>> ELSE <<<<"br", 0>>>> \o SqrtRatioCT(u, v)     \* early return on v = 0

\* ---- mechanism 7: batch inversion skips nothing ------------------------------------------------------
\* (FieldElement::batch_invert handles zero inputs by conditional selection; Scalar::batch_invert documents non-zero inputs)
BatchInvCT(xs) == [i \in 1..Len(xs) |-> <<"mul">>] \o <<<<"inv">>>> \o [i \in 1..Len(xs) |-> <<"mul">>]
BatchInvLeaky(xs) == [i \in 1..Len(xs) |-> IF xs[i] = 0 THEN <<"br", 1>> ELSE <<"mul">>] \o <<<<"inv">>>>
=============================================================================
