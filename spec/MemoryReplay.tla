---------------------------- MODULE MemoryReplay ----------------------------
(* Constant-level companion of Memory.tla: judging a recorded allocator trace by the same rule *)
(* (a block may only be handed back to the allocator untainted; everything is freed at the end). *)
EXTENDS Naturals, Sequences, FiniteSets
\* ---- replay of a recorded allocator trace (code -> spec) --------------------------------
\* events: sequence of [k, size, tainted, zero]; returns <<ok, live blocks at the end>>
ReplayOK(events) ==
  LET RECURSIVE Go(_, _)
      Go(i, live) == IF i > Len(events) THEN live >= 0
                     ELSE IF events[i].k = "alloc" THEN Go(i + 1, live + 1)
                     ELSE /\ live > 0 /\ ~events[i].tainted /\ Go(i + 1, live - 1)
  IN Go(1, 0)
LiveAtEnd(events) == Cardinality({i \in 1..Len(events) : events[i].k = "alloc"}) - Cardinality({i \in 1..Len(events) : events[i].k = "dealloc"})
=============================================================================
