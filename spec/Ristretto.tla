----------------------------- MODULE Ristretto -----------------------------
(***************************************************************************)
(* ristretto255 (RFC 9496 section 4), parametric in the curve.             *)
(*  Layer D: DECODE / ENCODE / EQUALS / MAP transcribed from the RFC.      *)
(*  Layer A: dalek's double_and_compress_batch and coset equality.         *)
(* An internal representative is an extended Edwards point (EdwardsAlg).   *)
(***************************************************************************)
EXTENDS EdwardsAlg

\* sqrt(a d - 1), a = -1.  Which of the two roots is a choice RFC 9496 section 4.1 makes by listing the value
\* (for ristretto255 it is the odd one); Params.tla carries that literal for the full-size curve.
ASSUME FSq(SQRT_AD_MINUS_ONE) = FSub(FNeg(D), F1)
ASSUME FMul(FSq(INVSQRT_A_MINUS_D), FSub(FNeg(F1), D)) = F1 /\ ~FIsNeg(INVSQRT_A_MINUS_D)  \* 1/sqrt(a - d)
ASSUME ONE_MINUS_D_SQ = FSub(F1, FSq(D))
ASSUME D_MINUS_ONE_SQ = FSq(FSub(D, F1))

CtAbs(x) == FAbs(x)

\* RFC 9496 4.3.1  DECODE: <<ok, extended point, reason>>
RistDecode(b) ==
  LET s == FromBytes(b) IN
  IF FToBytes(s) # b THEN <<FALSE, ExtIdentity, "non-canonical">>            \* s >= p or bit 255 set
  ELSE IF FIsNeg(s) THEN <<FALSE, ExtIdentity, "negative s">>
  ELSE LET ss == FSq(s)  u1 == FSub(F1, ss)  u2 == FAdd(F1, ss)  u2s == FSq(u2)
           v == FSub(FNeg(FMul(D, FSq(u1))), u2s)
           r == SqrtRatio(F1, FMul(v, u2s))
           denx == FMul(r[2], u2)
           deny == FMul(FMul(r[2], denx), v)
           x == CtAbs(FMul(FAdd(s, s), denx))
           y == FMul(u1, deny)
           t == FMul(x, y)
       IN IF ~r[1] THEN <<FALSE, ExtIdentity, "non-square">>
          ELSE IF FIsNeg(t) THEN <<FALSE, ExtIdentity, "negative t">>
          ELSE IF FIsZero(y) THEN <<FALSE, ExtIdentity, "y = 0">>
          ELSE <<TRUE, Ext(x, y, F1, t), "ok">>

\* RFC 9496 4.3.2  ENCODE
RistEncode(e) ==
  LET u1 == FMul(FAdd(e.Z, e.Y), FSub(e.Z, e.Y))
      u2 == FMul(e.X, e.Y)
      inv == SqrtRatio(F1, FMul(u1, FSq(u2)))[2]
      den1 == FMul(inv, u1)  den2 == FMul(inv, u2)
      zinv == FMul(FMul(den1, den2), e.T)
      rotate == FIsNeg(FMul(e.T, zinv))
      x == IF rotate THEN FMul(e.Y, SQRT_M1) ELSE e.X
      y0 == IF rotate THEN FMul(e.X, SQRT_M1) ELSE e.Y
      deninv == IF rotate THEN FMul(den1, INVSQRT_A_MINUS_D) ELSE den2
      y == IF FIsNeg(FMul(x, zinv)) THEN FNeg(y0) ELSE y0
  IN CtAbs(FMul(deninv, FSub(e.Z, y)))
RistEncodeAff(p) == RistEncode(FromAffine(p))

\* RFC 9496 4.3.3  EQUALS
RistEq(a, b) == FMul(a.X, b.Y) = FMul(a.Y, b.X) \/ FMul(a.Y, b.Y) = FMul(a.X, b.X)

\* RFC 9496 4.3.4  element derivation
RistMap(t) ==
  LET r == FMul(SQRT_M1, FSq(t))
      u == FMul(FAdd(r, F1), ONE_MINUS_D_SQ)
      v == FMul(FSub(FMinusOne, FMul(r, D)), FAdd(r, D))
      q == SqrtRatio(u, v)
      sp == FNeg(CtAbs(FMul(q[2], t)))
      s == IF q[1] THEN q[2] ELSE sp
      c == IF q[1] THEN FMinusOne ELSE r
      N == FSub(FMul(FMul(c, FSub(r, F1)), D_MINUS_ONE_SQ), v)
      w0 == FMul(FAdd(s, s), v)  w1 == FMul(N, SQRT_AD_MINUS_ONE)
      w2 == FSub(F1, FSq(s))     w3 == FAdd(F1, FSq(s))
  IN Ext(FMul(w0, w3), FMul(w2, w1), FMul(w1, w3), FMul(w0, w2))
\* from_uniform_bytes: two halves, top bit of each ignored, reduced, mapped, added
RistFromUniform(b) ==
  LET r1 == FromBytes(SubSeq(b, 1, LEN))  r2 == FromBytes(SubSeq(b, LEN + 1, 2 * LEN))
  IN EAdd(RistMap(r1), RistMap(r2))

\* ---- layer A: double_and_compress_batch -------------------------------------------------
BatchState(e) ==
  LET XX == FSq(e.X)  YY == FSq(e.Y)  ZZ == FSq(e.Z)  dTT == FMul(FSq(e.T), D)
      ee == FMul(e.X, FAdd(e.Y, e.Y))  f == FAdd(ZZ, dTT)  g == FAdd(YY, XX)  h == FSub(ZZ, dTT)
  IN [e |-> ee, f |-> f, g |-> g, h |-> h, eg |-> FMul(ee, g), fh |-> FMul(f, h)]
BatchOne(st, inv) ==
  LET Zinv == FMul(st.eg, inv)  Tinv == FMul(st.fh, inv)
      n1 == FIsNeg(FMul(st.eg, Zinv))
      e == IF n1 THEN st.g ELSE st.e
      g0 == IF n1 THEN FNeg(st.e) ELSE st.g
      h == IF n1 THEN FMul(st.f, SQRT_M1) ELSE st.h
      magic == IF n1 THEN SQRT_M1 ELSE INVSQRT_A_MINUS_D
      n2 == FIsNeg(FMul(FMul(h, e), Zinv))
      g == IF n2 THEN FNeg(g0) ELSE g0
  IN CtAbs(FMul(FSub(h, g), FMul(magic, FMul(g, Tinv))))
DoubleAndCompressBatch(es) ==
  LET sts == [i \in 1..Len(es) |-> BatchState(es[i])]
      invs == BatchInvert([i \in 1..Len(es) |-> FMul(sts[i].eg, sts[i].fh)])     \* zeros stay zero
  IN [i \in 1..Len(es) |-> BatchOne(sts[i], invs[i])]
=============================================================================
