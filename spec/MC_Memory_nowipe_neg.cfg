CONSTANTS
  NMAX = 5
  GROWTH = "exact"
INIT Init
NEXT NextNoWipe
INVARIANT NoTaintedFree
INVARIANT AllFreedAtEnd
CHECK_DEADLOCK FALSE
