--------------------------- MODULE MC_LimbField ---------------------------
EXTENDS LimbField, TLC
CONSTANT BSET       \* limb values used for the second operand ("ALL" = every value)
VARIABLES a, b, ph
Bound == 2^(R + H)
Rep(S) == [1..N -> S]
AllLimbs == 0..(Bound - 1)
BLimbs == IF BSET = "ALL" THEN AllLimbs ELSE {x \in AllLimbs : x \in {0, 1, 2, Mask - 1, Mask, Mask + 1, Mask + 2, Bound \div 2, Bound - 2, Bound - 1} \/ x % 7 = 3}
Init == a \in Rep(AllLimbs) /\ b = a /\ ph = 0
Next == /\ ph = 0 /\ ph' = 1 /\ b' \in Rep(BLimbs) /\ UNCHANGED a
Word == 2^WB
Acc == 2^(2 * WB)
va == Value(a) % PP
vb == Value(b) % PP
Reduced(o, slack) == \A i \in 1..N : o[i] < 2^R + slack

MulOK ==
  LET m == Mul(a, b) IN
  /\ Value(m.out) % PP = (va * vb) % PP
  /\ m.maxacc < Acc /\ m.maxcarry < Word /\ m.maxword < Word
  /\ \A i \in 1..N : i # 2 => m.out[i] < 2^R
  /\ m.out[2] < 2^R + Word \div 2^R
SqOK == LET m == Square(a) IN Value(m.out) % PP = (va * va) % PP /\ m.maxacc < Acc
SubOK ==
  LET raw == SubRaw(a, b)  s == Sub(a, b) IN
  /\ \A i \in 1..N : raw[i] >= 0 /\ a[i] + Bias(i) < Word        \* no underflow, no overflow
  /\ Value(s) % PP = (va + PP - vb) % PP
  /\ Reduced(s, C * (Word \div 2^R))
NegOK == LET s == Neg(a) IN Value(s) % PP = (PP - va) % PP /\ \A i \in 1..N : Bias(i) >= a[i]
AddOK == Value(Add(a, b)) % PP = (va + vb) % PP /\ \A i \in 1..N : Add(a, b)[i] < Word
RedOK == LET r == Reduce(a) IN Value(r) % PP = va /\ Reduced(r, C * (Word \div 2^R))
\* encoding is specified on weakly reduced inputs (limbs < 2^(R+1)), as produced by every kernel above
EncIn == \A i \in 1..N : a[i] < 2^(R + 1)
EncOK == EncIn => LET e == Encode(a) IN Value(e) = va /\ Value(e) < PP /\ \A i \in 1..N : e[i] < 2^R
Inv0 == ph = 0 => SqOK /\ NegOK /\ RedOK /\ EncOK
Inv1 == ph = 1 => MulOK /\ SubOK /\ AddOK
\* kept counterexample: one more bit of headroom overflows the accumulator
MulNoOverflow == ph = 1 => (Mul(a, b).maxacc < Acc /\ Mul(a, b).maxcarry < Word)
=============================================================================
