----------------------------- MODULE LimbField -----------------------------
(***************************************************************************)
(* Layer A: the limb kernels of the serial field backends, generic in the  *)
(* radix 2^R, the limb count N and the constant C of p = 2^(R*N) - C       *)
(* (u64 backend: R=51, N=5, C=19).  Toy instances are small enough for TLC *)
(* to run every kernel on EVERY admissible limb representation.            *)
(* Each kernel returns its output limbs together with the largest          *)
(* accumulator and carry it produced, so "no intermediate exceeds its      *)
(* word" is an invariant and not an assumption.                            *)
(***************************************************************************)
EXTENDS Integers, Sequences, FiniteSets

CONSTANTS R, N, C,
          H,      \* headroom bits of mul/square/sub inputs: limbs < 2^(R+H)
          WB      \* word bits (accumulators have 2*WB)

Mask == 2^R - 1
PP == 2^(R * N) - C
Max2(a, b) == IF a > b THEN a ELSE b

RECURSIVE LVal(_, _)
LVal(a, i) == IF i > Len(a) THEN 0 ELSE a[i] * 2^(R * (i - 1)) + LVal(a, i + 1)
Value(a) == LVal(a, 1)

\* ---- mul: schoolbook with inline xC folding, then the carry chain ----------
RECURSIVE SumTerms(_, _, _, _)
SumTerms(a, b, k, i) ==      \* coefficient k (0-based) : sum over i (1-based)
  IF i > N THEN 0
  ELSE LET j0 == k - (i - 1)                 \* 0-based j with i+j = k
           j1 == k + N - (i - 1)             \* 0-based j with i+j = k+N
           t0 == IF j0 >= 0 /\ j0 < N THEN a[i] * b[j0 + 1] ELSE 0
           t1 == IF j1 >= 0 /\ j1 < N THEN C * a[i] * b[j1 + 1] ELSE 0
       IN t0 + t1 + SumTerms(a, b, k, i + 1)
Coefs(a, b) == [k \in 1..N |-> SumTerms(a, b, k - 1, 1)]

RECURSIVE Chain(_, _, _, _, _, _)
Chain(c, k, carry, out, maxacc, maxcarry) ==
  IF k > N THEN [out |-> out, carry |-> carry, maxacc |-> maxacc, maxcarry |-> maxcarry]
  ELSE LET v == c[k] + carry IN
       Chain(c, k + 1, v \div 2^R, Append(out, v % 2^R), Max2(maxacc, v), Max2(maxcarry, v \div 2^R))
CarryOut(c) ==
  LET r == Chain(c, 1, 0, <<>>, 0, 0)
      o0 == r.out[1] + r.carry * C              \* out[0] += carry*19
      o1 == r.out[2] + (o0 \div 2^R)            \* out[1] += out[0] >> 51
      out == [i \in 1..N |-> IF i = 1 THEN o0 % 2^R ELSE IF i = 2 THEN o1 ELSE r.out[i]]
  IN [out |-> out, maxacc |-> r.maxacc, maxcarry |-> r.maxcarry, maxword |-> Max2(o0, o1)]
Mul(a, b) == CarryOut(Coefs(a, b))
Square(a) == Mul(a, a)

\* ---- weak reduce: parallel carry-outs, top carry wraps times C ---------------
Reduce(l) ==
  LET c == [i \in 1..N |-> l[i] \div 2^R]
      out == [i \in 1..N |-> (l[i] % 2^R) + (IF i = 1 THEN c[N] * C ELSE c[i - 1])]
  IN out

\* ---- sub / neg: add 2^(H+1) * p limb-wise, subtract, weak reduce ------------------
Bias(i) == 2^(H + 1) * (IF i = 1 THEN 2^R - C ELSE 2^R - 1)
SubRaw(a, b) == [i \in 1..N |-> (a[i] + Bias(i)) - b[i]]
Sub(a, b) == Reduce(SubRaw(a, b))
Neg(a) == Reduce([i \in 1..N |-> Bias(i) - a[i]])
Add(a, b) == [i \in 1..N |-> a[i] + b[i]]

\* ---- canonical encoding: q = carry of (h + C), then h + C q - 2^(RN) q ----------
RECURSIVE QChain(_, _, _)
QChain(l, i, q) == IF i > N THEN q ELSE QChain(l, i + 1, (l[i] + q) \div 2^R)
RECURSIVE EncChain(_, _, _, _)
EncChain(l, i, carry, out) ==
  IF i > N THEN out
  ELSE LET v == l[i] + carry IN EncChain(l, i + 1, v \div 2^R, Append(out, v % 2^R))
Encode(l0) ==
  LET l == Reduce(l0)
      q == QChain(l, 2, (l[1] + C) \div 2^R)
      l2 == [l EXCEPT ![1] = l[1] + C * q]
  IN EncChain(l2, 1, 0, <<>>)              \* top carry discarded = subtract 2^(RN) q
=============================================================================
