CONSTANTS
  NMAX = 5
  GROWTH = "exact"
INIT Init
NEXT Next
INVARIANT NoTaintedFree
INVARIANT AllFreedAtEnd
CHECK_DEADLOCK FALSE
