----------------------------- MODULE ExpChain -----------------------------
(***************************************************************************)
(* The fixed addition chains of field.rs (pow22501, invert, pow_p58) and   *)
(* scalar.rs (montgomery_invert) as step machines that carry the EXPONENT  *)
(* of each temporary: squaring k times shifts it left by k, multiplying    *)
(* adds.  The final-state invariant says which power the chain computes.   *)
(***************************************************************************)
EXTENDS BigNat, Naturals, Sequences, TLC

W == 40                                 \* bytes per exponent register
Sq(d, s, k)  == [dst |-> d, kind |-> "sq",  a |-> s, b |-> s, k |-> k]
Mul(d, x, y) == [dst |-> d, kind |-> "mul", a |-> x, b |-> y, k |-> 0]

Pow22501 == <<
  Sq("t0", "x", 1),      Sq("t1", "t0", 2),     Mul("t2", "x", "t1"),   Mul("t3", "t0", "t2"),
  Sq("t4", "t3", 1),     Mul("t5", "t2", "t4"), Sq("t6", "t5", 5),      Mul("t7", "t6", "t5"),
  Sq("t8", "t7", 10),    Mul("t9", "t8", "t7"), Sq("t10", "t9", 20),    Mul("t11", "t10", "t9"),
  Sq("t12", "t11", 10),  Mul("t13", "t12", "t7"), Sq("t14", "t13", 50), Mul("t15", "t14", "t13"),
  Sq("t16", "t15", 100), Mul("t17", "t16", "t15"), Sq("t18", "t17", 50), Mul("t19", "t18", "t13") >>
FieldInvert == Pow22501 \o << Sq("t20", "t19", 5), Mul("t21", "t20", "t3") >>
FieldPowP58 == Pow22501 \o << Sq("t20", "t19", 2), Mul("t21", "x", "t20") >>

SqMul(k, r) == << Sq("y", "y", k), Mul("y", "y", r) >>
ScalarInvert == <<
  Sq("_10", "x", 1), Sq("_100", "_10", 1), Mul("_11", "_10", "x"), Mul("_101", "_10", "_11"),
  Mul("_111", "_10", "_101"), Mul("_1001", "_10", "_111"), Mul("_1011", "_10", "_1001"),
  Mul("_1111", "_100", "_1011"), Mul("y", "_1111", "x") >>
  \o SqMul(123 + 3, "_101") \o SqMul(2 + 2, "_11") \o SqMul(1 + 4, "_1111") \o SqMul(1 + 4, "_1111")
  \o SqMul(4, "_1001") \o SqMul(2, "_11") \o SqMul(1 + 4, "_1111") \o SqMul(1 + 3, "_101")
  \o SqMul(3 + 3, "_101") \o SqMul(3, "_111") \o SqMul(1 + 4, "_1111") \o SqMul(2 + 3, "_111")
  \o SqMul(2 + 2, "_11") \o SqMul(1 + 4, "_1011") \o SqMul(2 + 4, "_1011") \o SqMul(6 + 4, "_1001")
  \o SqMul(2 + 2, "_11") \o SqMul(3 + 2, "_11") \o SqMul(3 + 2, "_11") \o SqMul(1 + 4, "_1001")
  \o SqMul(1 + 3, "_111") \o SqMul(2 + 4, "_1111") \o SqMul(1 + 4, "_1011") \o SqMul(3, "_101")
  \o SqMul(2 + 4, "_1111") \o SqMul(3, "_101") \o SqMul(1 + 2, "_11")

Names == {"x", "y", "_10", "_100", "_11", "_101", "_111", "_1001", "_1011", "_1111"}
         \cup {"t" \o ToString(i) : i \in 0..21}

VARIABLES chain, pc, reg
Progs == [inv |-> FieldInvert, p58 |-> FieldPowP58, p22501 |-> Pow22501, scinv |-> ScalarInvert]

Init == /\ chain \in DOMAIN Progs
        /\ pc = 1
        /\ reg = [n \in Names |-> IF n = "x" THEN One(W) ELSE Zero(W)]
Step == /\ pc <= Len(Progs[chain])
        /\ LET i == Progs[chain][pc] IN
             reg' = [reg EXCEPT ![i.dst] = IF i.kind = "sq" THEN BShl(reg[i.a], i.k, W)
                                           ELSE BAdd(reg[i.a], reg[i.b], W)]
        /\ pc' = pc + 1
        /\ UNCHANGED chain
Next == Step

P25519 == BSub(BPow2(255, W), BN(19, W), W)
L25519 == BAdd(BPow2(252, W), <<237, 211, 245, 92, 26, 99, 18, 88, 214, 156, 247, 162, 222, 249, 222, 20>>, W)

Done == pc = Len(Progs[chain]) + 1
FinalOK ==
  Done =>
    CASE chain = "inv"    -> reg["t21"] = BSub(P25519, BN(2, W), W)                       \* p - 2
      [] chain = "p58"    -> reg["t21"] = BDiv(BSub(P25519, BN(5, W), W), BN(8, W), W)    \* (p-5)/8
      [] chain = "p22501" -> /\ reg["t19"] = BSub(BPow2(250, W), One(W), W)               \* 2^250 - 1
                             /\ reg["t3"] = BN(11, W)
      [] chain = "scinv"  -> reg["y"] = BSub(L25519, BN(2, W), W)                         \* l - 2
=============================================================================
