----------------------------- MODULE TraceAll -----------------------------
(* The full-size trace specification: one disjunct per domain of events. *)
EXTENDS TraceField, TraceScalar, TraceEdwards, TraceMisc, TraceVec, TraceMore, TraceMem, TraceLeak, TraceX, Params

MetaOps == {"info", "reset", "force_backend"}
MetaStep == /\ l <= Len(Rec) /\ Rec[l].op \in MetaOps
            /\ Note(NoPanic(Rec[l]), Rec[l], "panic")
            /\ l' = l + 1
            /\ (IF Rec[l].op = "reset" THEN regs' = <<>> ELSE UNCHANGED regs)

\* an operand register was empty because an earlier call returned None where the specification says Some (the script is
\* written for the specified behaviour): reported, and the output register stays empty
DanglingStep == /\ l <= Len(Rec) /\ Rec[l].op = "dangling"
                /\ Note(FALSE, Rec[l], Rec[l].obs.msg)
                /\ l' = l + 1
                /\ (IF Has(Rec[l], "out") THEN SetReg(Rec[l].out, NoneVal) ELSE UNCHANGED regs)

Init == BaseInit
Next == MetaStep \/ DanglingStep \/ FieldStep \/ ScalarStep \/ EdStep \/ MontStep \/ MontToEdStep \/ RisStep \/ SigStep \/ VecStep \/ VecPointStep \/ ConstStep \/ MoreStep \/ NonspecMapStep \/ MemStep \/ LeakStep \/ XsStep \/ EncEqStep \/ Pkcs8Step
vars == <<l, bad, regs>>
Spec == Init /\ [][Next]_vars
=============================================================================
