----------------------------- MODULE TraceAll -----------------------------
(* The full-size trace specification: one disjunct per domain of events. *)
EXTENDS TraceField, TraceScalar, Params

MetaOps == {"info", "reset", "force_backend"}
MetaStep == /\ l <= Len(Rec) /\ Rec[l].op \in MetaOps
            /\ Note(NoPanic(Rec[l]), Rec[l], "panic")
            /\ l' = l + 1

Init == BaseInit
Next == MetaStep \/ FieldStep \/ ScalarStep
vars == <<l, bad>>
Spec == Init /\ [][Next]_vars
=============================================================================
