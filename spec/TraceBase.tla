---------------------------- MODULE TraceBase ----------------------------
(***************************************************************************)
(* Common part of all trace specifications (code -> spec conformance).     *)
(* The trace is the NDJSON file named by the environment variable TRACE;   *)
(* one event per line, written by the Rust driver at the return of each    *)
(* call.  Variable l is the position in the trace; bad collects the first  *)
(* few mismatches (a mismatch never falsifies an invariant, so the rest    *)
(* of the trace is still examined).                                        *)
(***************************************************************************)
EXTENDS Json, IOUtils, TLC, Sequences, Naturals

Rec == ndJsonDeserialize(IOEnv.TRACE)

VARIABLES l, bad,
          regs     \* the specification's own register file: name -> value (records tagged by t)

MaxBad == 6
Note(ok, e, why) ==
  bad' = IF ok \/ Len(bad) >= MaxBad THEN bad
         ELSE Append(bad, [line |-> l, i |-> e.i, op |-> e.op, cfg |-> e.cfg, why |-> why])

Has(e, f) == f \in DOMAIN e
NoPanic(e) == e.panic = ""

BaseInit == l = 1 /\ bad = <<>> /\ regs = <<>>

NoneVal == [t |-> "none"]
SetReg(n, v) == regs' = (n :> v) @@ regs
SetRegs(ns, vs) == regs' = [n \in {ns[i] : i \in 1..Len(ns)} |-> vs[CHOOSE i \in 1..Len(ns) : ns[i] = n /\ \A j \in (i+1)..Len(ns) : ns[j] # n]] @@ regs
IsNone(n) == regs[n].t = "none"

\* always-true invariant: prints the verdict once, in the final state
Report == (l = Len(Rec) + 1) =>
            PrintT(<<"VERDICT", ToJson([events |-> Len(Rec), bad |-> bad])>>)
\* every line matched some action
Complete == IF TLCGet("stats").diameter = Len(Rec) + 1 THEN TRUE
            ELSE PrintT(<<"UNMATCHED", TLCGet("stats").diameter, ToJson(Rec[TLCGet("stats").diameter])>>) /\ FALSE
=============================================================================
