---------------------------- MODULE TraceBase ----------------------------
(***************************************************************************)
(* Common part of all trace specifications (code -> spec conformance).     *)
(* The trace is the NDJSON file named by the environment variable TRACE;   *)
(* one event per line, written by the Rust driver at the return of each    *)
(* call.  Variable l is the position in the trace; bad collects the first  *)
(* few mismatches (a mismatch never falsifies an invariant, so the rest    *)
(* of the trace is still examined).                                        *)
(***************************************************************************)
EXTENDS Json, IOUtils, TLC, Sequences, Naturals

Rec == ndJsonDeserialize(IOEnv.TRACE)

VARIABLES l, bad

MaxBad == 6
Note(ok, e, why) ==
  bad' = IF ok \/ Len(bad) >= MaxBad THEN bad
         ELSE Append(bad, [line |-> l, i |-> e.i, op |-> e.op, cfg |-> e.cfg, why |-> why])

Has(e, f) == f \in DOMAIN e
NoPanic(e) == e.panic = ""

BaseInit == l = 1 /\ bad = <<>>

\* always-true invariant: prints the verdict once, in the final state
Report == (l = Len(Rec) + 1) =>
            PrintT(<<"VERDICT", ToJson([events |-> Len(Rec), bad |-> bad])>>)
\* every line matched some action
Complete == IF TLCGet("stats").diameter = Len(Rec) + 1 THEN TRUE
            ELSE PrintT(<<"UNMATCHED", TLCGet("stats").diameter, ToJson(Rec[TLCGet("stats").diameter])>>) /\ FALSE
=============================================================================
