----------------------------- MODULE BoundsAvx2 -----------------------------
(***************************************************************************)
(* Layer I, vector part: per-LANE bound factors through the AVX2 parallel  *)
(* formulas (backend/vector/avx2/edwards.rs) with the documented contracts *)
(* of the 4-lane field operations (backend/vector/avx2/field.rs).  A       *)
(* vector bound is <<fA, fB, fC, fD>>, factor = limb_max / 2^26 * 10^4.    *)
(***************************************************************************)
EXTENDS Naturals, Sequences, FiniteSets, TLC

CONSTANT MUTANT
U == 10000
RedF == 10049            \* b < 0.007  (mul, square_and_negate_D, mul by constants)
Red2 == 10002            \* b < 0.0002 (new, reduce, Neg)
Lim(b1000) == CASE b1000 = 999 -> 19986 [] b1000 = 10 -> 10070 [] b1000 = 1500 -> 28284 [] b1000 = 1750 -> 33635
                [] b1000 = 2500 -> 56568 [] b1000 = 4000 -> 160000
All(v, lim) == \A i \in 1..4 : v[i] < lim
Perm(v, p) == [i \in 1..4 |-> v[p[i]]]
Blend(a, b, m) == [i \in 1..4 |-> IF m[i] = 1 THEN b[i] ELSE a[i]]
VAdd(a, b) == [i \in 1..4 |-> a[i] + b[i]]
ZeroV == <<0, 0, 0, 0>>
\* each operation returns <<result, precondition holds>>
NegateLazy(v) == <<[i \in 1..4 |-> 20000], All(v, Lim(999))>>
DiffSum(v) == LET nl == NegateLazy(v) IN          \* (B - A, B + A, D - C, D + C)
              <<VAdd(Perm(v, <<2, 1, 4, 3>>), Blend(v, nl[1], <<1, 0, 1, 0>>)), All(v, Lim(10)) /\ nl[2]>>
Mul(a, b) == <<[i \in 1..4 |-> RedF], All(a, Lim(2500)) /\ All(b, Lim(1750))>>
SqNegD(v) == <<[i \in 1..4 |-> RedF], All(v, Lim(1500))>>
Neg(v) == <<[i \in 1..4 |-> Red2], All(v, Lim(4000))>>
MulConsts(v) == <<[i \in 1..4 |-> RedF], All(v, Lim(10))>>

\* ExtendedPoint::double
Double(e) ==
  LET t0a == Perm(e, <<1, 2, 1, 2>>)                      \* ABAB
      t1a == Perm(t0a, <<2, 1, 4, 3>>)                    \* BADC
      t0b == Blend(e, VAdd(t0a, t1a), <<0, 0, 0, 1>>)     \* (X Y Z X+Y)
      sq == SqNegD(t0b)
      t1 == sq[1]
      S1 == Perm(t1, <<1, 1, 1, 1>>)  S2 == Perm(t1, <<2, 2, 2, 2>>)
      a0 == Blend(ZeroV, VAdd(t1, t1), <<0, 0, 1, 0>>)
      a1 == Blend(a0, t1, <<0, 0, 0, 1>>)
      a2 == VAdd(a1, S1)
      a3 == VAdd(a2, Blend(ZeroV, S2, <<1, 0, 0, 1>>))
      nl == NegateLazy(IF MUTANT = "double_negate_twice" THEN NegateLazy(S2)[1] ELSE S2)
      a4 == VAdd(a3, Blend(ZeroV, nl[1], <<0, 1, 1, 0>>))
      m == Mul(Perm(a4, <<3, 1, 3, 1>>), Perm(a4, <<4, 2, 2, 4>>))     \* CACA * DBBD
  IN <<m[1], sq[2] /\ nl[2] /\ m[2], a4>>
\* CachedPoint::from(ExtendedPoint)
ToCached(e) ==
  LET ds == DiffSum(e)
      x0 == Blend(e, ds[1], <<1, 1, 0, 0>>)
      mc == MulConsts(IF MUTANT = "cached_without_reduce" THEN x0 ELSE [i \in 1..4 |-> IF i <= 2 THEN x0[i] ELSE x0[i]])
      ng == Neg(mc[1])
  IN <<Blend(mc[1], ng[1], <<0, 0, 0, 1>>), ds[2] /\ ng[2]>>
\* Neg for &CachedPoint : swap A,B and lazily negate D
NegCached(c) == LET sw == Perm(c, <<2, 1, 3, 4>>)  nl == NegateLazy(sw) IN <<Blend(sw, nl[1], <<0, 0, 0, 1>>), nl[2]>>
\* &ExtendedPoint + &CachedPoint
AddCached(e, c) ==
  LET ds == DiffSum(e)
      t == Blend(e, ds[1], <<1, 1, 0, 0>>)
      m1 == Mul(t, c)
      sh == Perm(m1[1], <<1, 2, 4, 3>>)                   \* ABDC
      ds2 == DiffSum(sh)
      m2 == Mul(Perm(ds2[1], <<1, 4, 4, 1>>), Perm(ds2[1], <<3, 2, 3, 2>>))   \* ADDA * CBCB
  IN <<m2[1], ds[2] /\ m1[2] /\ ds2[2] /\ m2[2]>>

VARIABLES ext, cached, negated, ok
vars == <<ext, cached, negated, ok>>
\* an ExtendedPoint built from serial coordinates by new(): b < 0.0002; the shipped cached table entries: reduced
Init == ext = <<Red2, Red2, Red2, Red2>> /\ cached = <<RedF, RedF, RedF, RedF>> /\ negated = FALSE /\ ok = TRUE
DoDouble == LET r == Double(ext) IN ext' = r[1] /\ ok' = (ok /\ r[2]) /\ UNCHANGED <<cached, negated>>
DoToCached == LET r == ToCached(ext) IN cached' = r[1] /\ negated' = FALSE /\ ok' = (ok /\ r[2]) /\ UNCHANGED ext
\* the code negates a cached point at most once between conversions (select's conditional negation, or Sub)
DoNegCached == ~negated /\ LET r == NegCached(cached) IN cached' = r[1] /\ negated' = TRUE /\ ok' = (ok /\ r[2]) /\ UNCHANGED ext
DoAdd == LET r == AddCached(ext, cached) IN ext' = r[1] /\ ok' = (ok /\ r[2]) /\ UNCHANGED <<cached, negated>>
Next == DoDouble \/ DoToCached \/ DoNegCached \/ DoAdd
PreconditionsHold == ok
\* the bookkeeping of the source comments is re-derived: after the additions in double() the lanes are below
\* (1.01, 1.6, 2.33, 1.6) bits of excess
DoubleBookkeeping == LET a4 == Double(ext)[3] IN a4[1] < 20139 /\ a4[2] < 30315 /\ a4[3] < 50281 /\ a4[4] < 30315
\* kept counterexample: negating an already negated cached point violates negate_lazy's precondition
NextDoubleNeg == Next \/ (negated /\ LET r == NegCached(cached) IN cached' = r[1] /\ ok' = (ok /\ r[2]) /\ UNCHANGED <<ext, negated>>)
=============================================================================
