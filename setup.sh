#!/bin/sh
# Build the framework from files on disk only (offline): the TLC module overrides.
set -e
cd "$(dirname "$0")/spec"
javac -cp /opt/veriftools/tla/tla2tools.jar BigNat.java Hash.java
echo "setup ok"
